//go:build verif

package tls

// C19 - session resumption works and never breaks the next handshake.
//
// A rapid state machine (rt.Repeat) drives a sequence of connections that share one ClientSessionCache against
// compliant servers (upstream tls.Server), with a model clock on both sides, ticket-key rotation and HelloRetryRequests
// forced through a single-group CurvePreferences. The oracle is a small model that does not look at the client's
// state: it is fed by what the *server* issued (Config.WrapSession hook: ticket bytes, version, EMS flag, createdAt,
// key generation) and by the reference parser applied to the client's bytes on the wire.

import (
	"crypto/sha256"
	"errors"
	"fmt"
	"io"
	"net"
	"sort"
	"strings"
	"sync"
	"testing"
	"time"

	"pgregory.net/rapid"
)

const (
	vf19KeyEMS         = "C19:ems-session-offered-without-ems"
	vf19KeyHRR         = "C19:psk-parrot-hrr"
	vf19KeyNoTicketExt = "C19:tls12-session-cached-spec-without-session-ticket-panics"

	vf19TicketLifetime = 7 * 24 * time.Hour
)

var vf19HRRRandom = sha256.Sum256([]byte("HelloRetryRequest"))

// ---- client identities (parrot or custom spec derived from a parrot by dropping session extensions) ----

type vf19Ident struct {
	Name   string
	Base   vfParrot
	Custom bool
	Drop   map[string]bool // "ticket", "psk", "ems"

	HasTicket, HasPSK, HasEMS, HasModesDHE bool
	MaxVers                                uint16
	HRRGroup                               CurveID // 0: no group that forces a HelloRetryRequest
}

func vf19DropExt(e TLSExtension, drop map[string]bool) bool {
	switch e.(type) {
	case *SessionTicketExtension:
		return drop["ticket"]
	case PreSharedKeyExtension:
		return drop["psk"]
	case *ExtendedMasterSecretExtension:
		return drop["ems"]
	}
	return false
}

// vf19Spec returns a fresh spec of the identity (extension objects are stateful, never share them).
func (id *vf19Ident) spec() (*ClientHelloSpec, error) {
	spec, err := UTLSIdToSpec(id.Base.ID)
	if err != nil {
		return nil, err
	}
	if len(id.Drop) > 0 {
		var keep []TLSExtension
		for _, e := range spec.Extensions {
			if !vf19DropExt(e, id.Drop) {
				keep = append(keep, e)
			}
		}
		spec.Extensions = keep
	}
	return &spec, nil
}

func vf19NewIdent(base vfParrot, custom bool, drop map[string]bool) (*vf19Ident, error) {
	id := &vf19Ident{Base: base, Custom: custom || len(drop) > 0, Drop: drop, Name: base.Name}
	if id.Custom {
		var d []string
		for k, v := range drop {
			if v {
				d = append(d, k)
			}
		}
		sort.Strings(d)
		id.Name = "custom(" + base.Name + ")"
		if len(d) > 0 {
			id.Name += "-no-" + strings.Join(d, "-no-")
		}
	}
	if base.ID.Client == helloGolang && !id.Custom {
		// HelloGolang has no spec: read what it offers from a hello built by the library's own code path
		cp, _ := vfPipe()
		defer cp.Close()
		uc := UClient(cp, &Config{ServerName: "probe.c19.test", ClientSessionCache: NewLRUClientSessionCache(1)}, HelloGolang)
		if err := uc.BuildHandshakeState(); err != nil {
			return nil, err
		}
		raw, err := uc.HandshakeState.Hello.Marshal()
		if err != nil {
			return nil, err
		}
		h := vfParseClientHello(raw)
		id.HasTicket, id.HasEMS, id.HasPSK = h.Ext(35) != nil, h.Ext(23) != nil, true // pre_shared_key is added when a session is cached
		if e := h.Ext(45); e != nil {
			for _, m := range e.Body[1:] {
				if m == 1 {
					id.HasModesDHE = true
				}
			}
		}
		id.MaxVers = VersionTLS13
		shared := map[uint16]bool{}
		for _, ks := range h.KeyShares() {
			shared[ks.Group] = true
		}
		for _, g := range h.Groups() {
			if !shared[g] && (g == uint16(CurveP256) || g == uint16(CurveP384) || g == uint16(CurveP521)) && id.HRRGroup == 0 {
				id.HRRGroup = CurveID(g)
			}
		}
		return id, nil
	}
	spec, err := id.spec()
	if err != nil {
		return nil, err
	}
	var groups []CurveID
	shares := map[CurveID]bool{}
	for _, e := range spec.Extensions {
		switch x := e.(type) {
		case *SessionTicketExtension:
			id.HasTicket = true
		case PreSharedKeyExtension:
			id.HasPSK = true
		case *ExtendedMasterSecretExtension:
			id.HasEMS = true
		case *PSKKeyExchangeModesExtension:
			for _, m := range x.Modes {
				if m == 1 {
					id.HasModesDHE = true
				}
			}
		case *SupportedCurvesExtension:
			groups = append(groups, x.Curves...)
		case *KeyShareExtension:
			for _, ks := range x.KeyShares {
				shares[ks.Group] = true
			}
		}
	}
	id.MaxVers = vfSpecMaxVersion(spec)
	if id.MaxVers >= VersionTLS13 && len(shares) > 0 {
		for _, g := range groups {
			if shares[g] {
				continue
			}
			if g == X25519 || g == CurveP256 || g == CurveP384 || g == CurveP521 {
				id.HRRGroup = g
				break
			}
		}
	}
	return id, nil
}

var vf19PSKParrots = []vfParrot{
	{"HelloChrome_100_PSK", HelloChrome_100_PSK}, {"HelloChrome_112_PSK_Shuf", HelloChrome_112_PSK_Shuf},
	{"HelloChrome_114_Padding_PSK_Shuf", HelloChrome_114_Padding_PSK_Shuf}, {"HelloChrome_115_PQ_PSK", HelloChrome_115_PQ_PSK},
}

// bases of the custom specs: PSK parrots plus a few ticket-only ones of different families
var vf19CustomBases = []vfParrot{
	{"HelloChrome_100_PSK", HelloChrome_100_PSK}, {"HelloChrome_112_PSK_Shuf", HelloChrome_112_PSK_Shuf},
	{"HelloChrome_114_Padding_PSK_Shuf", HelloChrome_114_Padding_PSK_Shuf}, {"HelloChrome_115_PQ_PSK", HelloChrome_115_PQ_PSK},
	{"HelloChrome_100", HelloChrome_100}, {"HelloFirefox_105", HelloFirefox_105}, {"HelloIOS_14", HelloIOS_14},
	{"HelloChrome_70", HelloChrome_70}, {"HelloEdge_106", HelloEdge_106},
}

func vf19GenIdent(rt *rapid.T, label string) *vf19Ident {
	var id *vf19Ident
	var err error
	switch k := rapid.IntRange(0, 99).Draw(rt, label+"_kind"); {
	case k < 40:
		id, err = vf19NewIdent(vf19PSKParrots[rapid.IntRange(0, len(vf19PSKParrots)-1).Draw(rt, label+"_psk")], false, nil)
	case k < 60:
		id, err = vf19NewIdent(vfGenParrot(rt, label+"_parrot"), false, nil)
	case k < 65:
		id, err = vf19NewIdent(vfParrot{"HelloGolang", HelloGolang}, false, nil)
	default:
		base := vf19CustomBases[rapid.IntRange(0, len(vf19CustomBases)-1).Draw(rt, label+"_base")]
		mask := rapid.IntRange(0, 7).Draw(rt, label+"_drop")
		drop := map[string]bool{}
		if mask&1 != 0 {
			drop["ems"] = true
		}
		if mask&2 != 0 {
			drop["ticket"] = true
		}
		if mask&4 != 0 {
			drop["psk"] = true
		}
		id, err = vf19NewIdent(base, true, drop)
	}
	if err != nil {
		rt.Fatalf("cannot build identity: %v", err)
	}
	return id
}

// ---- servers and the world ----

type vf19Ticket struct {
	Server    string
	Gen       int
	Vers      uint16
	EMS       bool
	Suite     uint16
	CreatedAt uint64
}

type vf19Server struct {
	name   string
	keys   [][32]byte
	gens   []int // key generation of each entry of keys
	nextG  int
	issued map[string]vf19Ticket // by ticket bytes
}

type vf19Last struct {
	ok      bool
	ident   string
	srvMax  uint16
	hrr     CurveID
	vers    uint16
	ticket  *vf19Ticket // last ticket issued during that connection, nil if none
	connIdx int
}

type vf19World struct {
	st      *vfStats
	mu      sync.Mutex
	now     time.Time
	cache   ClientSessionCache
	servers map[string]*vf19Server
	last    map[string]*vf19Last
	keySeq  byte

	conns           int
	expectedResumes int
	trace           []string // action kinds, for the non-triviality key
	log             []string // human readable history, printed with a violation
}

// The shared cache has exactly one slot per server name: nothing is ever evicted for lack of room, so a lost entry is a
// defect of the cache bookkeeping (e.g. after the "session expired" deletions of loadSession), not of the model.
var vf19Names = []string{"a.c19.test", "b.c19.test", "c.c19.test"}

func vf19NewWorld(st *vfStats) *vf19World {
	w := &vf19World{st: st, now: vfNow(), cache: NewLRUClientSessionCache(len(vf19Names)), servers: map[string]*vf19Server{}, last: map[string]*vf19Last{}}
	for _, n := range vf19Names {
		s := &vf19Server{name: n, issued: map[string]vf19Ticket{}}
		w.servers[n] = s
		w.rotate(n, false)
	}
	return w
}

func (w *vf19World) clock() time.Time {
	w.mu.Lock()
	defer w.mu.Unlock()
	return w.now
}

func (w *vf19World) rotate(name string, keepOld bool) {
	s := w.servers[name]
	w.keySeq++
	var k [32]byte
	copy(k[:], fmt.Sprintf("vf19-key-%s-%d", name, w.keySeq))
	k[31] = w.keySeq
	if keepOld && len(s.keys) > 0 {
		s.keys = append([][32]byte{k}, s.keys[0])
		s.gens = append([]int{s.nextG}, s.gens[0])
	} else {
		s.keys = [][32]byte{k}
		s.gens = []int{s.nextG}
	}
	s.nextG++
}

func (s *vf19Server) holdsGen(g int) bool {
	for _, x := range s.gens {
		if x == g {
			return true
		}
	}
	return false
}

func (w *vf19World) serverConfig(name string, maxVers uint16, hrr CurveID, issuedNow *[]vf19Ticket) *Config {
	s := w.servers[name]
	// a.c19.test and b.c19.test are two names of one certificate (separate ticket keys): the certificate check in
	// loadSession cannot mask a session that is looked up under the wrong name
	names := []string{name}
	if name != vf19Names[2] {
		names = []string{vf19Names[0], vf19Names[1]}
	}
	leaf := vfLeaf(vfLeafSpec{KeyType: "ecdsa", Names: names, NotAfter: vfNow().Add(5 * 365 * 24 * time.Hour)})
	cfg := &Config{
		Certificates: []Certificate{*leaf},
		MinVersion:   VersionTLS10,
		MaxVersion:   maxVers,
		Time:         w.clock,
		CipherSuites: vfAllServerSuites(),
	}
	if hrr != 0 {
		cfg.CurvePreferences = []CurveID{hrr}
	}
	cfg.SetSessionTicketKeys(s.keys)
	gen := s.gens[0]
	cfg.WrapSession = func(cs ConnectionState, ss *SessionState) ([]byte, error) {
		b, err := cfg.EncryptTicket(cs, ss)
		if err == nil {
			t := vf19Ticket{Server: name, Gen: gen, Vers: ss.version, EMS: ss.extMasterSecret, Suite: ss.cipherSuite, CreatedAt: ss.createdAt}
			w.mu.Lock()
			s.issued[string(b)] = t
			*issuedNow = append(*issuedNow, t)
			w.mu.Unlock()
		}
		return b, err
	}
	cfg.UnwrapSession = func(id []byte, cs ConnectionState) (*SessionState, error) {
		return cfg.DecryptTicket(id, cs)
	}
	return cfg
}

type vf19Conn struct {
	Ident   *vf19Ident
	Name    string
	SrvMax  uint16
	HRR     bool
	OmitPSK bool
	// PreBuild: what the caller does before Handshake. 0 nothing; 1 an explicit BuildHandshakeState; 2 build then
	// SetClientRandom; 3 build then a new Hello.SessionId (documented edits between BuildHandshakeState and Handshake:
	// the hello is re-marshalled by Handshake and a PSK binder must be recomputed over the new bytes); 4 a first build
	// with BuildHandshakeStateWithoutSession
	PreBuild int
}

func vf19VersName(v uint16) string {
	switch v {
	case VersionTLS13:
		return "13"
	case VersionTLS12:
		return "12"
	case VersionTLS11:
		return "11"
	case VersionTLS10:
		return "10"
	}
	return fmt.Sprintf("%04x", v)
}

// vf19Run runs both handshakes, recovering panics on either side.
func vf19Run(p *vfPair, pre func() error) (cerr, serr error, cpanic, spanic *vfPanic) {
	dl := time.Now().Add(vfIOTimeout)
	p.CP.SetDeadline(dl)
	p.SP.SetDeadline(dl)
	type res struct {
		err error
		pn  *vfPanic
	}
	cdone := make(chan res, 1)
	sdone := make(chan res, 1)
	go func() {
		var err error
		pn := vfCatch(func() {
			if pre != nil {
				if err = pre(); err != nil {
					return
				}
			}
			err = p.Cli.Handshake()
		})
		if err != nil || pn != nil {
			p.CP.Close()
		}
		cdone <- res{err, pn}
	}()
	go func() {
		var err error
		pn := vfCatch(func() { err = p.Srv.Handshake() })
		if err != nil || pn != nil {
			p.SP.Close()
		}
		sdone <- res{err, pn}
	}()
	timer := time.NewTimer(vfIOTimeout + 10*time.Second)
	defer timer.Stop()
	for i := 0; i < 2; i++ {
		select {
		case r := <-cdone:
			cerr, cpanic = r.err, r.pn
			cdone = nil
		case r := <-sdone:
			serr, spanic = r.err, r.pn
			sdone = nil
		case <-timer.C:
			if cdone != nil {
				cerr = errVfHang
			}
			if sdone != nil {
				serr = errVfHang
			}
			return
		}
	}
	return
}

// peerWentAway: the error is only the consequence of the other side having closed the pipe / sent an alert.
func vf19PeerWentAway(err error) bool {
	if err == nil {
		return true
	}
	if errors.Is(err, io.EOF) || errors.Is(err, io.ErrUnexpectedEOF) || errors.Is(err, io.ErrClosedPipe) || errors.Is(err, net.ErrClosed) {
		return true
	}
	s := err.Error()
	return strings.Contains(s, "remote error") || strings.Contains(s, "closed pipe") || strings.Contains(s, "use of closed")
}

func vf19HashLen(suite uint16) int {
	if suite == TLS_AES_256_GCM_SHA384 {
		return 48
	}
	return 32
}

// connect performs one connection and judges it. t is the rapid.T or testing.T of the caller.
func (w *vf19World) connect(t vfFataler, c vf19Conn) {
	t.Helper()
	st := w.st
	w.conns++
	idx := w.conns
	id := c.Ident
	srv := w.servers[c.Name]
	var hrrGroup CurveID
	if c.HRR && c.SrvMax == VersionTLS13 {
		hrrGroup = id.HRRGroup
	}
	last := w.last[c.Name]

	// ---- expectation from the model (before the connection) ----
	expectVers := c.SrvMax
	if id.MaxVers < expectVers {
		expectVers = id.MaxVers
	}
	expectResume := false
	whyNot := "cold"
	if last != nil {
		switch {
		case !last.ok:
			whyNot = "previous-failed"
		case last.ident != id.Name:
			whyNot = "other-identity"
		case last.srvMax != c.SrvMax || last.hrr != hrrGroup:
			whyNot = "other-server-config"
		case last.ticket == nil:
			whyNot = "no-ticket-issued"
		case !srv.holdsGen(last.ticket.Gen):
			whyNot = "keys-rotated"
		case w.now.Sub(time.Unix(int64(last.ticket.CreatedAt), 0)) > vf19TicketLifetime:
			whyNot = "expired"
		case last.vers == VersionTLS12 && !id.HasTicket:
			whyNot = "spec-without-session_ticket"
		case last.vers == VersionTLS13 && !(id.HasPSK && id.HasModesDHE):
			whyNot = "spec-without-pre_shared_key"
		case last.vers < VersionTLS12:
			whyNot = "old-version"
		default:
			expectResume = true
			whyNot = ""
		}
	}
	desc := fmt.Sprintf("#%d connect %s -> %s srvMax=%s hrrGroup=%d omitEmptyPsk=%v expectResume=%v(%s) t=+%s",
		idx, id.Name, c.Name, vf19VersName(c.SrvMax), hrrGroup, c.OmitPSK, expectResume, whyNot, w.now.Sub(vfNow()))
	w.log = append(w.log, desc)
	fail := func(format string, a ...any) {
		t.Helper()
		st.Violation(t, "%s\nhistory:\n  %s", fmt.Sprintf(format, a...), strings.Join(w.log, "\n  "))
	}

	// ---- run ----
	ccfg := &Config{ServerName: c.Name, RootCAs: vfGetCA("main").Pool, Time: w.clock, ClientSessionCache: w.cache,
		OmitEmptyPsk: c.OmitPSK, PreferSkipResumptionOnNilExtension: true}
	var issuedNow []vf19Ticket
	scfg := w.serverConfig(c.Name, c.SrvMax, hrrGroup, &issuedNow)
	hid := id.Base.ID
	if id.Custom {
		hid = HelloCustom
	}
	pair := vfNewPair(ccfg, hid, scfg)
	defer pair.Close()
	pre := func() error {
		if id.Custom {
			spec, err := id.spec()
			if err != nil {
				return err
			}
			if err := pair.Cli.ApplyPreset(spec); err != nil {
				return err
			}
		}
		if c.PreBuild == 4 {
			// the hello is first built for inspection without a session (documented), the session is attached by the
			// build that Handshake performs
			return pair.Cli.BuildHandshakeStateWithoutSession()
		}
		if c.PreBuild > 0 {
			if err := pair.Cli.BuildHandshakeState(); err != nil {
				return err
			}
			switch c.PreBuild {
			case 2:
				r := make([]byte, 32)
				for i := range r {
					r[i] = byte(0xa0 + idx + i)
				}
				if err := pair.Cli.SetClientRandom(r); err != nil {
					return err
				}
			case 3:
				sid := make([]byte, 32)
				for i := range sid {
					sid[i] = byte(0x30 + idx*3 + i)
				}
				pair.Cli.HandshakeState.Hello.SessionId = sid
			}
		}
		return nil
	}
	if c.PreBuild > 0 {
		w.log[len(w.log)-1] += fmt.Sprintf(" prebuild=%d", c.PreBuild)
		st.Class(fmt.Sprintf("prebuild=%d", c.PreBuild))
	}
	cerr, serr, cpn, spn := vf19Run(pair, pre)
	if cpn != nil {
		issued12 := false
		w.mu.Lock()
		for _, tk := range srv.issued {
			if tk.Vers == VersionTLS12 {
				issued12 = true
			}
		}
		w.mu.Unlock()
		if msg, ok := cpn.Val.(string); ok && strings.Contains(msg, "setSessionTicketExt failed: invalid state") && !id.HasTicket && issued12 {
			// a TLS 1.2 session cached under this name by another identity, and a spec without session_ticket
			w.log = append(w.log, "   -> client panicked: "+msg)
			w.trace = append(w.trace, "cX")
			w.last[c.Name] = &vf19Last{ident: id.Name, srvMax: c.SrvMax, hrr: hrrGroup, connIdx: idx}
			st.Class("outcome:known:tls12-session-cached-spec-without-session-ticket")
			st.KnownOrViolation(t, vf19KeyNoTicketExt, "%s (spec without session_ticket, skipping resumption on a nil extension is enabled) panics in BuildHandshakeState when the shared cache holds a TLS 1.2 session for %s: %s\nhistory:\n  %s",
				id.Name, c.Name, msg, strings.Join(w.log, "\n  "))
			return
		}
		fail("client panicked: %s", cpn)
	}
	if spn != nil {
		fail("server panicked: %s", spn)
	}
	if cerr == errVfHang || serr == errVfHang {
		fail("handshake did not return: client=%v server=%v", cerr, serr)
	}

	// ---- what went over the wire ----
	hellos := vfClientHellosOnWire(pair.CP.Written())
	var parsed []*vfHello
	offeredPSK := false     // first hello carried pre_shared_key
	var offered *vf19Ticket // the (last) ticket / identity offered, if any
	for hi, raw := range hellos {
		h := vfParseClientHello(raw)
		parsed = append(parsed, h)
		for _, v := range h.Violations {
			if strings.Contains(v, "pre_shared_key") || strings.Contains(v, "extension 41") || strings.Contains(v, "session_ticket") ||
				strings.Contains(v, "handshake length") || strings.Contains(v, "trailing bytes") || strings.Contains(v, "extensions block") {
				fail("ClientHello %d on the wire is malformed: %s", hi, v)
			}
		}
		if sni, ok := h.SNI(); ok && sni != c.Name {
			fail("ClientHello %d carries SNI %q, configured %q", hi, sni, c.Name)
		}
		check := func(kind string, tk []byte) {
			t.Helper()
			w.mu.Lock()
			rec, ok := srv.issued[string(tk)]
			w.mu.Unlock()
			if !ok {
				for n, o := range w.servers {
					w.mu.Lock()
					_, there := o.issued[string(tk)]
					w.mu.Unlock()
					if there {
						fail("ClientHello %d to %s offers a %s that was issued by %s (session offered under another server name)", hi, c.Name, kind, n)
					}
				}
				fail("ClientHello %d offers a %s (%d bytes) no server ever issued", hi, kind, len(tk))
			}
			r := rec
			offered = &r
		}
		if e := h.Ext(35); e != nil && len(e.Body) > 0 {
			check("session ticket", e.Body)
		}
		if p := h.PSK(); p != nil {
			if hi == 0 {
				offeredPSK = true
			}
			if len(p.Identities) == 0 || len(p.Identities) != len(p.Binders) {
				fail("ClientHello %d: %d PSK identities, %d binders", hi, len(p.Identities), len(p.Binders))
			}
			if h.Exts[len(h.Exts)-1].Type != 41 {
				fail("ClientHello %d: pre_shared_key is not the last extension", hi)
			}
			for i, ident := range p.Identities {
				check("PSK identity", ident)
				if offered.Vers != VersionTLS13 {
					fail("ClientHello %d: PSK identity is a ticket of version %#x", hi, offered.Vers)
				}
				// placeholder and real binder have the size of the PSK's hash: real-binder hello length == placeholder hello length
				if len(p.Binders[i]) != vf19HashLen(offered.Suite) {
					fail("ClientHello %d: binder of %d bytes for a PSK of suite %#x", hi, len(p.Binders[i]), offered.Suite)
				}
			}
			if h.Ext(45) == nil {
				fail("ClientHello %d: pre_shared_key without psk_key_exchange_modes", hi)
			}
		}
	}
	srvHRR := false
	if msgs, _ := vfPlainHandshakeMsgs(pair.SP.Written()); len(msgs) > 0 && msgs[0].Type == 2 && len(msgs[0].Body) >= 34 &&
		string(msgs[0].Body[2:34]) == string(vf19HRRRandom[:]) {
		srvHRR = true
	}

	// ---- verdict ----
	w.trace = append(w.trace, func() string {
		s := "c" + vf19VersName(expectVers)
		if hrrGroup != 0 {
			s += "h"
		}
		if expectResume {
			s += "R"
		}
		return s
	}())
	cl := "connect:tls" + vf19VersName(expectVers)
	if hrrGroup != 0 {
		cl += "+hrr"
	}
	if expectResume {
		cl += ":resume-expected"
		w.expectedResumes++
	} else {
		cl += ":" + whyNot
	}
	st.Class(cl)
	nl := &vf19Last{ident: id.Name, srvMax: c.SrvMax, hrr: hrrGroup, connIdx: idx}
	w.last[c.Name] = nl

	if cerr != nil || serr != nil {
		w.log = append(w.log, fmt.Sprintf("   -> client err=%v | server err=%v", cerr, serr))
		switch {
		case errors.Is(cerr, ErrEmptyPsk) && id.HasPSK && !c.OmitPSK && len(hellos) == 0 &&
			!(expectResume && last.vers == VersionTLS13):
			// documented: an empty pre_shared_key extension is an error unless OmitEmptyPsk is set
			st.Class("outcome:ErrEmptyPsk(documented)")
			return
		case serr != nil && strings.Contains(serr.Error(), "session supported extended_master_secret but client does not"):
			if len(parsed) == 0 || parsed[0].Ext(23) != nil || offered == nil || !offered.EMS || offered.Vers > VersionTLS12 {
				fail("server aborted with the EMS error but the case does not match the known class: client=%v server=%v", cerr, serr)
			}
			st.Class("outcome:known:ems-session-offered-without-ems")
			st.KnownOrViolation(t, vf19KeyEMS, "%s: a TLS 1.2 session established with extended_master_secret (ticket issued by %s) is offered in a ClientHello without extended_master_secret; the server aborts: %v\nhistory:\n  %s",
				id.Name, c.Name, serr, strings.Join(w.log, "\n  "))
			return
		case cerr != nil && strings.Contains(cerr.Error(), "uTLS does not support reprocessing of PSK key") && srvHRR && offeredPSK:
			st.Class("outcome:known:psk-parrot-hrr")
			st.KnownOrViolation(t, vf19KeyHRR, "%s: ClientHello offers a PSK, the server answers HelloRetryRequest (group %d), client fails: %v\nhistory:\n  %s",
				id.Name, hrrGroup, cerr, strings.Join(w.log, "\n  "))
			return
		}
		who := "client"
		if serr != nil && !vf19PeerWentAway(serr) {
			who = "server (aborted because of what the client offered)"
		}
		fail("handshake failed on the %s side: client=%v server=%v (HRR=%v, offeredPSK=%v, hellos=%d)", who, cerr, serr, srvHRR, offeredPSK, len(hellos))
	}

	ccs, scs := pair.Cli.ConnectionState(), pair.Srv.ConnectionState()
	if !ccs.HandshakeComplete || !scs.HandshakeComplete {
		fail("handshake returned nil but HandshakeComplete client=%v server=%v", ccs.HandshakeComplete, scs.HandshakeComplete)
	}
	if ccs.Version != scs.Version || ccs.Version != expectVers {
		fail("negotiated version client=%#x server=%#x expected %#x", ccs.Version, scs.Version, expectVers)
	}
	if ccs.DidResume != scs.DidResume {
		fail("DidResume differs: client=%v server=%v", ccs.DidResume, scs.DidResume)
	}
	if hrrGroup != 0 && ccs.Version == VersionTLS13 {
		if !srvHRR || len(hellos) != 2 {
			fail("HelloRetryRequest was forced (group %d) but HRR seen=%v, ClientHellos on the wire=%d", hrrGroup, srvHRR, len(hellos))
		}
		st.Class("wire:hrr-two-hellos")
	}
	if err := pair.Echo([]byte("ping-c19"), []byte("pong-c19")); err != nil {
		fail("application data after the handshake failed: %v", err)
	}
	w.log = append(w.log, fmt.Sprintf("   -> ok vers=%s resumed=%v ticketsIssued=%d", vf19VersName(ccs.Version), ccs.DidResume, len(issuedNow)))
	if expectResume && !ccs.DidResume {
		fail("expected a resumption (same identity, name and server configuration, live ticket) but a full handshake happened; offered=%v", offered != nil)
	}
	if ccs.DidResume {
		st.Class("outcome:resumed-tls" + vf19VersName(ccs.Version))
		if offered == nil {
			fail("both sides report a resumption but no ticket / PSK identity was on the wire")
		}
		if offered.Vers != ccs.Version {
			fail("resumed a %#x session on a %#x connection", offered.Vers, ccs.Version)
		}
		if !srv.holdsGen(offered.Gen) {
			fail("resumed with a ticket encrypted under a rotated-out key")
		}
		if w.now.Sub(time.Unix(int64(offered.CreatedAt), 0)) > vf19TicketLifetime {
			fail("resumed with an expired ticket (created %d, now %d)", offered.CreatedAt, w.now.Unix())
		}
		last := parsed[len(parsed)-1]
		if ccs.Version == VersionTLS13 {
			if last.PSK() == nil {
				fail("TLS 1.3 resumption without pre_shared_key in the final ClientHello")
			}
			if last.Exts[len(last.Exts)-1].Type != 41 {
				fail("resumed but pre_shared_key was not last")
			}
			st.Class("wire:psk-last-binder-accepted")
		} else if ccs.Version == VersionTLS12 {
			if e := last.Ext(35); e == nil || len(e.Body) == 0 {
				fail("TLS 1.2 ticket resumption without a session_ticket body")
			}
			if offered.EMS != (last.Ext(23) != nil) {
				fail("TLS 1.2 resumption with an EMS mismatch went through: session EMS=%v hello EMS=%v", offered.EMS, last.Ext(23) != nil)
			}
		}
	} else {
		st.Class("outcome:full-tls" + vf19VersName(ccs.Version))
	}
	nl.ok = true
	nl.vers = ccs.Version
	if n := len(issuedNow); n > 0 {
		tk := issuedNow[n-1]
		nl.ticket = &tk
	}
	st.Sample(map[string]any{"ident": id.Name, "server": c.Name, "srvMax": vf19VersName(c.SrvMax), "hrrGroup": hrrGroup,
		"resumed": ccs.DidResume, "expectedResume": expectResume, "hellos": len(hellos), "tickets": len(issuedNow)})
}

func (w *vf19World) advance(d time.Duration) {
	w.mu.Lock()
	w.now = w.now.Add(d)
	w.mu.Unlock()
	w.trace = append(w.trace, "adv")
	w.log = append(w.log, fmt.Sprintf("advanceClock +%s", d))
}

func (w *vf19World) finish() {
	w.st.Eval()
	if w.expectedResumes > 0 {
		w.st.NonTrivial(strings.Join(w.trace, ","))
		w.st.Class("sequence:with-expected-resumption")
	} else {
		w.st.Class("sequence:no-expected-resumption")
	}
}

var vf19ClockSteps = []time.Duration{time.Second, time.Hour, 24 * time.Hour, 6 * 24 * time.Hour, vf19TicketLifetime - time.Second,
	vf19TicketLifetime, vf19TicketLifetime + time.Second, 8 * 24 * time.Hour, 30 * 24 * time.Hour}

// ---- the state machine ----

func TestVerifC19StateMachine(t *testing.T) {
	st := vfNewStats(t, "C19")
	rapid.Check(t, func(rt *rapid.T) {
		w := vf19NewWorld(st)
		npool := rapid.IntRange(1, 3).Draw(rt, "npool")
		var pool []*vf19Ident
		for i := 0; i < npool; i++ {
			if i > 0 && pool[0].Base.ID.Client != helloGolang && rapid.IntRange(0, 2).Draw(rt, fmt.Sprintf("ident%d_variant", i)) == 0 {
				// the same browser with a different set of session extensions (Roller-style fingerprint mixing)
				mask := rapid.IntRange(1, 7).Draw(rt, fmt.Sprintf("ident%d_vdrop", i))
				id, err := vf19NewIdent(pool[0].Base, true, map[string]bool{"ems": mask&1 != 0, "ticket": mask&2 != 0, "psk": mask&4 != 0})
				if err != nil {
					rt.Fatalf("variant: %v", err)
				}
				pool = append(pool, id)
				continue
			}
			pool = append(pool, vf19GenIdent(rt, fmt.Sprintf("ident%d", i)))
		}
		prev := map[string]*vf19Conn{}
		drawName := func(rt *rapid.T) string {
			if rapid.IntRange(0, 3).Draw(rt, "name_other") == 0 {
				return vf19Names[rapid.IntRange(1, 2).Draw(rt, "name")]
			}
			return vf19Names[0]
		}
		rt.Repeat(map[string]func(*rapid.T){
			"connect": func(rt *rapid.T) {
				name := drawName(rt)
				var c vf19Conn
				mode := rapid.IntRange(0, 9).Draw(rt, "mode")
				if p := prev[name]; p != nil && mode < 4 {
					c = *p // same identity, name and server configuration
					c.OmitPSK = rapid.IntRange(0, 9).Draw(rt, "omit") != 0
				} else if p != nil && mode < 6 && len(pool) > 1 {
					c = *p // same name and server configuration, another identity sharing the cache
					c.Ident = pool[rapid.IntRange(0, len(pool)-1).Draw(rt, "ident")]
					c.OmitPSK = true
				} else if p != nil && mode < 8 {
					c = *p // same identity, one server parameter changed
					if rapid.Bool().Draw(rt, "flipvers") {
						if c.SrvMax == VersionTLS13 {
							c.SrvMax = VersionTLS12
						} else {
							c.SrvMax = VersionTLS13
						}
					} else {
						c.HRR = !c.HRR
					}
				} else {
					c = vf19Conn{Ident: pool[rapid.IntRange(0, len(pool)-1).Draw(rt, "ident")], Name: name,
						SrvMax:  []uint16{VersionTLS12, VersionTLS13, VersionTLS13}[rapid.IntRange(0, 2).Draw(rt, "srvmax")],
						HRR:     rapid.IntRange(0, 3).Draw(rt, "hrr") == 0,
						OmitPSK: rapid.IntRange(0, 9).Draw(rt, "omit") != 0}
					if rapid.IntRange(0, 2).Draw(rt, "prebuildp") == 0 {
						c.PreBuild = rapid.IntRange(1, 4).Draw(rt, "prebuild")
						if c.PreBuild == 4 {
							c.OmitPSK = true // a sessionless build of a PSK parrot is documented to need OmitEmptyPsk
						}
					}
				}
				if c.PreBuild == 4 {
					c.OmitPSK = true // a sessionless build of a PSK parrot is documented to need OmitEmptyPsk
				}
				cc := c
				prev[name] = &cc
				w.connect(rt, c)
			},
			"reconnect": func(rt *rapid.T) { // bias towards the premise of the property: same everything again
				p := prev[vf19Names[0]]
				if p == nil {
					rt.Skip("nothing to repeat")
				}
				c := *p
				c.OmitPSK = true
				w.connect(rt, c)
			},
			"advanceClock": func(rt *rapid.T) {
				if w.now.Sub(vfNow()) > 120*24*time.Hour {
					rt.Skip("clock far enough")
				}
				w.advance(vf19ClockSteps[rapid.IntRange(0, len(vf19ClockSteps)-1).Draw(rt, "d")])
			},
			"rotateTicketKeys": func(rt *rapid.T) {
				name := drawName(rt)
				keep := rapid.Bool().Draw(rt, "keepOld")
				w.rotate(name, keep)
				w.trace = append(w.trace, "rot")
				w.log = append(w.log, fmt.Sprintf("rotateTicketKeys %s keepOld=%v", name, keep))
			},
		})
		w.finish()
	})
}

// ---- directed cases: every parrot resumes at 1.2 / 1.3 according to its spec; the known classes; expiry; rotation ----

func TestVerifC19AllParrots(t *testing.T) {
	st := vfNewStats(t, "C19")
	for _, p := range vfParrots {
		for _, sv := range []uint16{VersionTLS12, VersionTLS13} {
			id, err := vf19NewIdent(p, false, nil)
			if err != nil {
				t.Fatal(err)
			}
			w := vf19NewWorld(st)
			c := vf19Conn{Ident: id, Name: vf19Names[0], SrvMax: sv, OmitPSK: true}
			w.connect(t, c)
			w.connect(t, c) // resumption expected iff the spec carries the extension
			w.advance(vf19TicketLifetime + time.Second)
			w.connect(t, c) // expiry => full handshake, not failure
			w.connect(t, c)
			w.rotate(c.Name, false)
			w.connect(t, c) // undecryptable ticket => full handshake
			w.finish()
		}
	}
}

func TestVerifC19Directed(t *testing.T) {
	st := vfNewStats(t, "C19")
	mk := func(p vfParrot, custom bool, drop ...string) *vf19Ident {
		d := map[string]bool{}
		for _, x := range drop {
			d[x] = true
		}
		id, err := vf19NewIdent(p, custom, d)
		if err != nil {
			t.Fatal(err)
		}
		return id
	}
	chrome100 := vfParrot{"HelloChrome_100", HelloChrome_100}
	// (a) EMS session offered by a spec without EMS sharing cache and server name
	{
		w := vf19NewWorld(st)
		a, b := mk(chrome100, false), mk(chrome100, true, "ems")
		w.connect(t, vf19Conn{Ident: a, Name: vf19Names[0], SrvMax: VersionTLS12, OmitPSK: true})
		w.connect(t, vf19Conn{Ident: b, Name: vf19Names[0], SrvMax: VersionTLS12, OmitPSK: true})
		w.connect(t, vf19Conn{Ident: b, Name: vf19Names[0], SrvMax: VersionTLS12, OmitPSK: true})
		w.connect(t, vf19Conn{Ident: b, Name: vf19Names[0], SrvMax: VersionTLS12, OmitPSK: true}) // non-EMS session resumes
		w.connect(t, vf19Conn{Ident: a, Name: vf19Names[0], SrvMax: VersionTLS12, OmitPSK: true}) // non-EMS session, EMS hello: full handshake
		w.finish()
	}
	// (a3) the same with every PREDEFINED identity whose hello has session_ticket but no extended_master_secret
	// (Hello360_7_5, and randomized IDs for the seeds that draw no EMS): EMS session of another identity in the cache
	{
		var noEMS []*vf19Ident
		for _, p := range vfParrots {
			if id := mk(p, false); id.HasTicket && !id.HasEMS {
				noEMS = append(noEMS, id)
			}
		}
		for _, base := range []ClientHelloID{HelloRandomized, HelloRandomizedALPN, HelloRandomizedNoALPN} {
			found := 0
			for k := 0; k < 64 && found < 2; k++ {
				rid := base
				var seed PRNGSeed
				seed[0], seed[7] = byte(k), byte(3*k+1)
				rid.Seed = &seed
				w := DefaultWeights
				rid.Weights = &w
				id, err := vf19NewIdent(vfParrot{fmt.Sprintf("%s(seed %d)", base.Client, k), rid}, false, nil)
				if err == nil && id.HasTicket && !id.HasEMS {
					noEMS = append(noEMS, id)
					found++
				}
			}
		}
		st.Extra("predefined_identities_without_ems", len(noEMS))
		for i, b := range noEMS {
			w := vf19NewWorld(st)
			a := mk(chrome100, false)
			name := vf19Names[i%len(vf19Names)]
			w.connect(t, vf19Conn{Ident: a, Name: name, SrvMax: VersionTLS12, OmitPSK: true})
			w.connect(t, vf19Conn{Ident: b, Name: name, SrvMax: VersionTLS12, OmitPSK: true})
			w.connect(t, vf19Conn{Ident: b, Name: name, SrvMax: VersionTLS12, OmitPSK: true})
			w.connect(t, vf19Conn{Ident: a, Name: name, SrvMax: VersionTLS12, OmitPSK: true})
			w.finish()
		}
	}
	// (a2) a TLS 1.2 session cached by another identity, then a spec without session_ticket under the same name
	{
		w := vf19NewWorld(st)
		a, b := mk(chrome100, false), mk(chrome100, true, "ticket")
		w.connect(t, vf19Conn{Ident: a, Name: vf19Names[2], SrvMax: VersionTLS12, OmitPSK: true})
		w.connect(t, vf19Conn{Ident: b, Name: vf19Names[2], SrvMax: VersionTLS12, OmitPSK: true})
		w.connect(t, vf19Conn{Ident: b, Name: vf19Names[2], SrvMax: VersionTLS13, OmitPSK: true})
		w.connect(t, vf19Conn{Ident: a, Name: vf19Names[2], SrvMax: VersionTLS12, OmitPSK: true})
		w.finish()
	}
	// (h) expiry, fresh session, then the other names: the fresh session of the first name must survive
	for _, p := range []vfParrot{{"HelloChrome_100_PSK", HelloChrome_100_PSK}, {"HelloGolang", HelloGolang}, chrome100} {
		for _, sv := range []uint16{VersionTLS13, VersionTLS12} {
			w := vf19NewWorld(st)
			id := mk(p, false)
			c := func(name string) { w.connect(t, vf19Conn{Ident: id, Name: name, SrvMax: sv, OmitPSK: true}) }
			c(vf19Names[0])
			c(vf19Names[0])
			w.advance(8 * 24 * time.Hour) // beyond the ticket lifetime: the cached session is dropped on the next use
			c(vf19Names[0])
			c(vf19Names[0])
			c(vf19Names[1])
			c(vf19Names[2])
			c(vf19Names[1])
			c(vf19Names[0])
			c(vf19Names[2])
			w.finish()
		}
	}
	// (g) HelloGolang (session loaded inside the handshake, the only identity for which PSK + HelloRetryRequest is implemented)
	{
		w := vf19NewWorld(st)
		g := mk(vfParrot{"HelloGolang", HelloGolang}, false)
		for _, hrr := range []bool{false, false, true, true, true, false} {
			w.connect(t, vf19Conn{Ident: g, Name: vf19Names[1], SrvMax: VersionTLS13, HRR: hrr})
		}
		for i := 0; i < 3; i++ {
			w.connect(t, vf19Conn{Ident: g, Name: vf19Names[2], SrvMax: VersionTLS12})
		}
		w.finish()
	}
	// (b) PSK parrot + HelloRetryRequest
	for _, p := range vf19PSKParrots {
		w := vf19NewWorld(st)
		id := mk(p, false)
		if id.HRRGroup == 0 {
			t.Fatalf("%s has no group to force a HelloRetryRequest with", p.Name)
		}
		c := vf19Conn{Ident: id, Name: vf19Names[1], SrvMax: VersionTLS13, HRR: true, OmitPSK: true}
		w.connect(t, c)
		w.connect(t, c)
		w.connect(t, c) // the failed attempt must not break the next handshake
		c.HRR = false
		w.connect(t, c)
		w.connect(t, c)
		w.finish()
	}
	// (c) a session is never offered under another name; TLS 1.3 <-> 1.2 server flips; OmitEmptyPsk=false on a warm cache
	for _, p := range vf19PSKParrots {
		w := vf19NewWorld(st)
		id := mk(p, false)
		c := vf19Conn{Ident: id, Name: vf19Names[0], SrvMax: VersionTLS13, OmitPSK: true}
		w.connect(t, c)
		c.OmitPSK = false
		w.connect(t, c)
		c2 := c
		c2.Name = vf19Names[1]
		c2.OmitPSK = true
		w.connect(t, c2)
		w.connect(t, c2)
		c.SrvMax = VersionTLS12
		c.OmitPSK = true
		w.connect(t, c)
		w.connect(t, c)
		c.SrvMax = VersionTLS13
		w.connect(t, c)
		w.connect(t, c)
		w.rotate(c.Name, true)
		w.connect(t, c)
		w.advance(vf19TicketLifetime)
		w.connect(t, c)
		w.finish()
	}
}
