//go:build verif

// C13 (extension): specs imported with ClientHelloSpec.ImportTLSClientHello (the tlsfingerprint.io map format) into a
// spec whose TLSVersMin/TLSVersMax the application had set BEFORE the import - the documented order ("TLSVersMin/
// TLSVersMax are set to 0 if supported_versions is present. To prevent conflict, they should be set manually if needed
// BEFORE calling this function"). Whatever the fields held, the connection's accepted range must follow what the hello
// advertises: against the legacy server a completed handshake is at an advertised version.

package tls

import (
	"fmt"
	"io"
	"log"
	"testing"

	"pgregory.net/rapid"
)

// vf13MapFromHello renders the map form of a parsed hello (format documented at ImportTLSClientHello).
func vf13MapFromHello(h *vfHello) map[string][]byte {
	m := map[string][]byte{"cipher_suites": {}, "compression_methods": append([]byte{}, h.Compression...), "extensions": {}}
	for _, s := range h.Suites {
		m["cipher_suites"] = append(m["cipher_suites"], byte(s>>8), byte(s))
	}
	strip8 := func(b []byte) []byte {
		if len(b) == 0 {
			return []byte{}
		}
		return append([]byte{}, b[1:]...)
	}
	for _, e := range h.Exts {
		m["extensions"] = append(m["extensions"], byte(e.Type>>8), byte(e.Type))
		body := append([]byte{}, e.Body...)
		switch e.Type {
		case 11:
			m["pt_fmts"] = body
		case 13:
			m["sig_algs"] = body
		case 43:
			m["supported_versions"] = strip8(body)
		case 10:
			m["curves"] = body
		case 16:
			m["alpn"] = body
		case 51:
			ks := []byte{}
			for _, s := range h.KeyShares() {
				ks = append(ks, byte(s.Group>>8), byte(s.Group), byte(len(s.Data)>>8), byte(len(s.Data)))
			}
			m["key_share"] = ks
		case 45:
			m["psk_key_exchange_modes"] = strip8(body)
		case 27:
			m["cert_compression_algs"] = strip8(body)
		case 28:
			m["record_size_limit"] = body
		}
	}
	return m
}

func TestVerifC13ImportedMapWithPresetVersions(t *testing.T) {
	st := vfNewStats(t, "C13")
	log.SetOutput(io.Discard)
	run := func(rt vfFataler, pr vfParrot, preMin, preMax, ver uint16, seed uint64) {
		sni := "import.c13.test"
		first, err := vfPrepareClient(vfClientSrc{Kind: "parrot", Name: pr.Name, ID: pr.ID}, sni, seed, nil)
		if err != nil {
			st.Class("import-map:parrot-not-buildable")
			return
		}
		first.CP.Close()
		spec := &ClientHelloSpec{TLSVersMin: preMin, TLSVersMax: preMax}
		if err := spec.ImportTLSClientHello(vf13MapFromHello(first.Offer.Hello)); err != nil {
			st.Class("import-map:import-error(no verdict)")
			return
		}
		src := vfClientSrc{Kind: "custom", Name: fmt.Sprintf("import-map(%s, fields preset to %04x..%04x)", pr.Name, preMin, preMax), ID: HelloCustom, Spec: spec}
		p, err := vfPrepareClient(src, sni, seed+1, nil)
		if err != nil {
			st.Class("import-map:spec-not-applicable(no verdict)")
			return
		}
		o := p.Offer
		if o.Hello.Version < ver {
			p.CP.Close()
			return
		}
		var si *vfSuiteInfo
		var keys []string
		for _, id := range o.Suites {
			c := vfLegacySuite(id)
			if c == nil || (c.TLS12 && ver < VersionTLS12) {
				continue
			}
			if k := vfCertKeysFor(o, ver, c.Auth); len(k) > 0 {
				si, keys = c, k
				break
			}
		}
		if si == nil {
			st.Class("import-map:no-legacy-suite-for-version")
			p.CP.Close()
			return
		}
		st.Eval()
		s := &vsrv12Script{Version: ver, Canary: "none", Suite: si.ID}
		scfg := vfServerConfig(keys[0], vfCertNames(sni)...)
		scfg.MaxVersion = VersionTLS12
		srv := Server(p.SP, scfg)
		vsrv12Install(srv, s)
		pair := &vfPair{CP: p.CP, SP: p.SP, Cli: p.UC, Srv: srv}
		cerr, serr := pair.Handshake()
		defer pair.Close()
		advertised := o.HasVersion(ver)
		desc := fmt.Sprintf("%s | legacy server picks %04x (hello advertises %04x), no sentinel, suite %04x", src, ver, o.Versions, si.ID)
		if cerr == errVfHang || serr == errVfHang {
			st.Violation(rt, "%s: hang", desc)
		}
		completed := cerr == nil && pair.Cli.ConnectionState().HandshakeComplete
		st.Class(fmt.Sprintf("import-map: server=%04x advertised=%v completed=%v", ver, advertised, completed))
		if completed {
			if got := pair.Cli.ConnectionState().Version; got != ver {
				st.Violation(rt, "%s: client reports version %04x", desc, got)
			}
			if !advertised {
				st.Violation(rt, "%s: handshake COMPLETED at a version the hello did not advertise", desc)
			}
		}
		if !advertised {
			st.NonTrivial(fmt.Sprintf("import-map|%s|%04x|%04x|%04x", pr.Name, preMin, preMax, ver))
		}
	}
	for i, name := range []string{"HelloChrome_120", "HelloFirefox_120", "HelloIOS_14", "HelloEdge_106"} {
		for _, pr := range vfParrots {
			if pr.Name == name {
				run(t, pr, VersionTLS10, VersionTLS13, []uint16{VersionTLS11, VersionTLS10}[i%2], uint64(500+i))
			}
		}
	}
	rapid.Check(t, func(rt *rapid.T) {
		pr := vfGenParrot(rt, "parrot")
		vers := []uint16{0, VersionTLS10, VersionTLS11, VersionTLS12, VersionTLS13}
		run(rt, pr, rapid.SampledFrom(vers).Draw(rt, "preset_min"), rapid.SampledFrom(vers).Draw(rt, "preset_max"),
			rapid.SampledFrom([]uint16{VersionTLS10, VersionTLS11, VersionTLS12}).Draw(rt, "server_version"), rapid.Uint64().Draw(rt, "seed"))
	})
}
