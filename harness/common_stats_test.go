//go:build verif

package tls

// Shared bookkeeping for the /verif property checks: case counters, the set of distinct non-trivial
// case keys, class histogram, samples, known-finding hits and violations. One file per test is written
// to $VERIF_STATS_DIR and merged by /verif/vcheck into evidence/<id>.json.

import (
	"encoding/json"
	"fmt"
	"os"
	"path/filepath"
	"strings"
	"sync"
	"testing"
)

type vfKnownHit struct {
	Count  int    `json:"count"`
	Detail string `json:"detail"`
}

type vfStats struct {
	mu         sync.Mutex
	test       string
	prop       string
	evals      int64
	nontrivial map[string]struct{}
	classes    map[string]int
	samples    []any
	sampleSeen int
	known      map[string]*vfKnownHit
	violations []string
	extra      map[string]any
	openKnown  map[string]bool
}

const vfMaxSamples = 6
const vfMaxNontrivialKeys = 400000

func vfNewStats(t *testing.T, prop string) *vfStats {
	s := &vfStats{
		test: t.Name(), prop: prop,
		nontrivial: map[string]struct{}{}, classes: map[string]int{}, known: map[string]*vfKnownHit{},
		extra: map[string]any{}, openKnown: map[string]bool{},
	}
	for _, k := range strings.Split(os.Getenv("VERIF_KNOWN"), ",") {
		if k != "" {
			s.openKnown[k] = true
		}
	}
	t.Cleanup(s.Flush)
	return s
}

// Eval counts one executed case.
func (s *vfStats) Eval() {
	s.mu.Lock()
	s.evals++
	s.mu.Unlock()
}

func (s *vfStats) Class(c string) {
	s.mu.Lock()
	s.classes[c]++
	s.mu.Unlock()
}

// NonTrivial records the key of a case that is non-trivial by the property's stated rule.
func (s *vfStats) NonTrivial(key string) {
	s.mu.Lock()
	if len(s.nontrivial) < vfMaxNontrivialKeys {
		if len(key) > 96 {
			key = vfHashHex([]byte(key))
		}
		s.nontrivial[key] = struct{}{}
	}
	s.mu.Unlock()
}

// Sample keeps a few actual cases (the first ones and then exponentially rarer ones).
func (s *vfStats) Sample(v any) {
	s.mu.Lock()
	defer s.mu.Unlock()
	s.sampleSeen++
	if len(s.samples) < vfMaxSamples/2 {
		s.samples = append(s.samples, v)
		return
	}
	n := s.sampleSeen
	if n&(n-1) == 0 { // powers of two
		if len(s.samples) < vfMaxSamples {
			s.samples = append(s.samples, v)
		} else {
			s.samples[vfMaxSamples/2+(n%(vfMaxSamples-vfMaxSamples/2))] = v
		}
	}
}

func (s *vfStats) Extra(k string, v any) {
	s.mu.Lock()
	s.extra[k] = v
	s.mu.Unlock()
}

// Known reports whether key is listed as an *open* finding in /verif/known_findings.json; if so the hit is
// counted and the caller treats the case as excluded. If it is not listed the caller must treat the
// observation as an ordinary violation.
func (s *vfStats) Known(key, detail string) bool {
	s.mu.Lock()
	defer s.mu.Unlock()
	if !s.openKnown[key] {
		return false
	}
	h := s.known[key]
	if h == nil {
		h = &vfKnownHit{Detail: detail}
		s.known[key] = h
	}
	h.Count++
	return true
}

type vfFataler interface {
	Fatalf(format string, args ...any)
	Helper()
}

// Violation records the violation (flushed at once, so it survives a crash) and fails the case.
func (s *vfStats) Violation(t vfFataler, format string, args ...any) {
	t.Helper()
	msg := fmt.Sprintf(format, args...)
	s.mu.Lock()
	if len(s.violations) < 20 {
		s.violations = append(s.violations, msg)
	}
	s.mu.Unlock()
	s.Flush()
	t.Fatalf("VERIF-VIOLATION %s: %s", s.prop, msg)
}

// KnownOrViolation: the case failed in the way described by key. Returns normally (case excluded) when
// key is an open known finding, otherwise fails the case as a violation.
func (s *vfStats) KnownOrViolation(t vfFataler, key string, format string, args ...any) {
	t.Helper()
	msg := fmt.Sprintf(format, args...)
	if s.Known(key, msg) {
		return
	}
	s.Violation(t, "[%s] %s", key, msg)
}

func (s *vfStats) Flush() {
	dir := os.Getenv("VERIF_STATS_DIR")
	if dir == "" {
		return
	}
	s.mu.Lock()
	defer s.mu.Unlock()
	keys := make([]string, 0, len(s.nontrivial))
	for k := range s.nontrivial {
		keys = append(keys, k)
	}
	out := map[string]any{
		"test": s.test, "property": s.prop, "evaluations": s.evals, "nontrivial": keys,
		"classes": s.classes, "samples": s.samples, "known": s.known, "violations": s.violations, "extra": s.extra,
	}
	b, err := json.Marshal(out)
	if err != nil {
		b, _ = json.Marshal(map[string]any{"test": s.test, "property": s.prop, "evaluations": s.evals,
			"nontrivial": keys, "classes": s.classes, "known": s.known, "violations": s.violations,
			"samples": []any{fmt.Sprintf("%v", s.samples)}})
	}
	os.MkdirAll(dir, 0o755)
	name := strings.NewReplacer("/", "_", " ", "_").Replace(s.test)
	tmp := filepath.Join(dir, name+".json.tmp")
	if os.WriteFile(tmp, b, 0o644) == nil {
		os.Rename(tmp, filepath.Join(dir, name+".json"))
	}
}

func vfTier() string {
	if os.Getenv("VERIF_TIER") == "thorough" {
		return "thorough"
	}
	return "quick"
}

func vfThorough() bool { return vfTier() == "thorough" }
