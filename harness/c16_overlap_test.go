//go:build verif

package tls

// C16 (extension): connections with overlapping lifetimes. The other C16 tests run one connection after the other; here
// several GREASE-ECH clients are prepared (BuildHandshakeState, the hello is inspected) in a drawn order and handshake
// in another drawn order, and while a client waits for the answer to its first ClientHello the server side prepares
// one more client before it sends the HelloRetryRequest. Oracle as stated: within a connection the extension bytes of
// the second hello equal those of the first; across connections enc and payload never repeat.

import (
	"bytes"
	"fmt"
	"testing"

	"pgregory.net/rapid"
)

type vf16Live struct {
	pair *vfPair
	hrr  CurveID
	ech  [][]byte // ECH extension bodies on the wire, per hello
	out  []*vfECHOuter
}

func TestVerifC16OverlappingConnections(t *testing.T) {
	st := vfNewStats(t, "C16")
	parrots := vf16GreaseParrots(t)
	rapid.Check(t, func(rt *rapid.T) {
		const name = "grease.c16.test"
		n := rapid.IntRange(2, 5).Draw(rt, "connections")
		st.Eval()
		var live []*vf16Live
		var descs []string
		for i := 0; i < n; i++ {
			ident := vf16GenIdent(rt, parrots)
			descs = append(descs, ident.desc)
			l := &vf16Live{}
			if rapid.Bool().Draw(rt, fmt.Sprintf("hrr%d", i)) {
				g, err := vf16HRRGroup(ident)
				if err != nil {
					st.Violation(rt, "%s: cannot build a ClientHello: %v", ident.desc, err)
				}
				l.hrr = g
			}
			cp, sp := vfPipe()
			uc, _, err := vf16NewClient(ident, vfClientConfig(name), cp)
			if err != nil {
				st.Violation(rt, "%s: cannot build client: %v", ident.desc, err)
			}
			scfg := vfServerConfig("ecdsa", name)
			l.pair = &vfPair{CP: cp, SP: sp, Cli: uc, Srv: Server(sp, scfg)}
			if l.hrr != 0 {
				// scripted server: before the HelloRetryRequest goes out, one more client prepares its hello
				extraIdent := vf16GenIdent(rt, parrots)
				vsrvInstall(l.pair.Srv, &vsrvScript{HRR: true, HRRGroup: uint16(l.hrr), Mutate: func(idx int, typ uint8, raw []byte) []byte {
					if idx == 0 {
						xp, xs := vfPipe()
						if xc, _, err := vf16NewClient(extraIdent, vfClientConfig(name), xp); err == nil {
							xc.BuildHandshakeState()
						}
						xp.Close()
						xs.Close()
					}
					return raw
				}})
			}
			live = append(live, l)
		}
		defer func() {
			for _, l := range live {
				l.pair.Close()
			}
		}()
		// prepare in one order, handshake in another
		for _, i := range rapid.Permutation(vf16Seq(n)).Draw(rt, "build_order") {
			if rapid.IntRange(0, 3).Draw(rt, fmt.Sprintf("prebuild%d", i)) != 0 {
				if err := live[i].pair.Cli.BuildHandshakeState(); err != nil {
					st.Violation(rt, "%s: BuildHandshakeState: %v", descs[i], err)
				}
				st.Class("prepared-before-others-handshake")
			}
		}
		for _, i := range rapid.Permutation(vf16Seq(n)).Draw(rt, "handshake_order") {
			l := live[i]
			cerr, serr := l.pair.Handshake()
			if cerr != nil || serr != nil {
				st.Violation(rt, "%s (connection %d of %v, hrr=%v): handshake failed: client=%v server=%v", descs[i], i, descs, l.hrr, cerr, serr)
			}
			for _, raw := range vfClientHellosOnWire(l.pair.CP.Written()) {
				h := vfParseClientHello(raw)
				if e := h.Ext(vf16ExtECH); e != nil {
					l.ech = append(l.ech, e.Body)
					l.out = append(l.out, h.ECH())
				} else {
					st.Violation(rt, "%s: ClientHello without encrypted_client_hello", descs[i])
				}
			}
			if want := map[bool]int{false: 1, true: 2}[l.hrr != 0]; len(l.ech) != want {
				st.Violation(rt, "%s: %d ClientHello(s) on the wire, expected %d", descs[i], len(l.ech), want)
			}
			if len(l.ech) == 2 {
				st.Class("hrr-while-another-client-prepares")
				if !bytes.Equal(l.ech[0], l.ech[1]) {
					st.Violation(rt, "%s (connections %v): GREASE ECH changed across the HelloRetryRequest while another connection prepared its hello:\n first  %x\n second %x", descs[i], descs, l.ech[0], l.ech[1])
				}
			}
		}
		for i := range live {
			for j := 0; j < i; j++ {
				for _, ea := range live[i].out {
					for _, eb := range live[j].out {
						if bytes.Equal(ea.Enc, eb.Enc) {
							st.Violation(rt, "connections %d (%s) and %d (%s), lifetimes overlapping, carry the same GREASE enc %x", j, descs[j], i, descs[i], ea.Enc)
						}
						if len(ea.Payload) >= 16 && bytes.Equal(ea.Payload, eb.Payload) {
							st.Violation(rt, "connections %d (%s) and %d (%s), lifetimes overlapping, carry the same GREASE payload %x", j, descs[j], i, descs[i], ea.Payload)
						}
					}
				}
			}
		}
		st.Class(fmt.Sprintf("overlapping:%d-connections", n))
		st.NonTrivial(fmt.Sprintf("overlap|%v", descs))
	})
}

func vf16Seq(n int) []int {
	s := make([]int, n)
	for i := range s {
		s[i] = i
	}
	return s
}
