//go:build verif

package tls

// C14 (extension): the verification name at HANDSHAKE time. The name can change between BuildHandshakeState and
// Handshake through the documented edits (SetSNI with another name, with an IP literal or with the empty string; for
// HelloGolang also by editing Config.ServerName). Whatever the call history, a handshake may only succeed if the leaf
// matches the name in force when the certificate is checked - and with no name in force at all (and neither
// InsecureSkipVerify nor InsecureServerNameToVerify) it must not succeed.

import (
	"fmt"
	"testing"

	"pgregory.net/rapid"
)

func TestVerifC14NameChangedAfterBuild(t *testing.T) {
	st := vfNewStats(t, "C14")
	idents := vf14Identities(t)
	const built, other = "built.c14.test", "other.c14.test"
	run := func(tt vfFataler, id vf14Ident, maxVer uint16, edit string, certName string, isntv string) {
		st.Eval()
		cfg := &Config{ServerName: built, RootCAs: vfGetCA("main").Pool, OmitEmptyPsk: true, Time: vfNow, InsecureServerNameToVerify: isntv}
		scfg := vfServerConfig("ecdsa", certName)
		scfg.MaxVersion = maxVer
		p := vfNewPair(cfg, id.ID, scfg)
		defer p.Close()
		if err := p.Cli.BuildHandshakeState(); err != nil {
			st.Class("name-changed:build-failed")
			return
		}
		want := built // the name the certificate is checked against at handshake time
		switch edit {
		case "SetSNI(empty)":
			p.Cli.SetSNI("")
			want = ""
		case "SetSNI(ipv4)":
			p.Cli.SetSNI("192.0.2.9")
			want = ""
		case "SetSNI(ipv6)":
			p.Cli.SetSNI("2001:db8::9")
			want = ""
		case "SetSNI(other)":
			p.Cli.SetSNI(other)
			want = other
		case "Config.ServerName=empty":
			cfg.ServerName = ""
			want = ""
			if !id.Golang {
				want = built // the parrot's SNI extension restores the name from the built hello
			}
		case "none":
		}
		switch isntv {
		case "*":
			want = "*"
		case "":
		default:
			want = isntv
		}
		cerr, serr := p.Handshake()
		ok := cerr == nil && serr == nil
		mustOK := want == "*" || (want != "" && want == certName)
		what := fmt.Sprintf("%s max=%04x built with ServerName=%q, then %s; InsecureServerNameToVerify=%q; leaf valid for %q only (trusted root): verification name in force %q",
			id.Name, maxVer, built, edit, isntv, certName, want)
		if ok && !mustOK {
			st.Violation(tt, "%s: handshake SUCCEEDED", what)
		}
		if !ok && mustOK {
			// success is not demanded by C14 ("succeeds only if"), but a refusal here would point at the harness
			st.Class("name-changed:refused-although-matching")
		}
		st.Class("name-changed:" + edit)
		st.NonTrivial(fmt.Sprintf("namechg|%s|%04x|%s|%s|%s", id.Name, maxVer, edit, certName, isntv))
		st.Sample(map[string]any{"case": what, "conn1": fmt.Sprint(cerr)})
	}
	edits := []string{"none", "SetSNI(empty)", "SetSNI(ipv4)", "SetSNI(ipv6)", "SetSNI(other)", "Config.ServerName=empty"}
	for i, id := range idents {
		if !vfThorough() && i%5 != 0 && !id.Golang {
			continue
		}
		for _, mv := range []uint16{VersionTLS12, VersionTLS13} {
			for _, e := range edits {
				run(t, id, mv, e, other, "")
				run(t, id, mv, e, built, "")
			}
		}
	}
	rapid.Check(t, func(rt *rapid.T) {
		id := idents[rapid.IntRange(0, len(idents)-1).Draw(rt, "ident")]
		run(rt, id, rapid.SampledFrom([]uint16{VersionTLS12, VersionTLS13}).Draw(rt, "maxver"),
			rapid.SampledFrom(edits).Draw(rt, "edit"),
			rapid.SampledFrom([]string{other, built, "alt.c14.test"}).Draw(rt, "cert"),
			rapid.SampledFrom([]string{"", "", "", "*", other, "alt.c14.test"}).Draw(rt, "isntv"))
	})
}
