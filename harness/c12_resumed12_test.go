//go:build verif

package tls

// C12 (extension): the unoffered choice comes with a RESUMED TLS 1.2 session. The client holds a ticket from an earlier
// connection; the scripted server opens it, really resumes (abbreviated handshake, correct Finished), and announces a
// compression method or an ALPN protocol the hello did not offer. Control: without an adversarial value the same server
// must resume.

import (
	"fmt"
	"testing"

	"pgregory.net/rapid"
)

func TestVerifC12TLS12Resumed(t *testing.T) {
	st := vfNewStats(t, "C12")
	rapid.Check(t, func(rt *rapid.T) {
		var src vfClientSrc
		if rapid.IntRange(0, 5).Draw(rt, "golang") == 0 {
			src = vfClientSrc{Kind: "golang", Name: "HelloGolang", ID: HelloGolang}
		} else {
			p := vfGenParrot(rt, "parrot")
			src = vfClientSrc{Kind: "parrot", Name: p.Name, ID: p.ID}
		}
		sni := vfGenDNSName(rt, "sni")
		cache := NewLRUClientSessionCache(4)
		mod := func(c *Config) {
			c.ClientSessionCache = cache
			c.OmitEmptyPsk = true
			c.PreferSkipResumptionOnNilExtension = true
			if src.Kind == "golang" {
				c.MaxVersion = VersionTLS12
			}
		}
		st.Eval()
		p1, err := vfPrepareClient(src, sni, rapid.Uint64().Draw(rt, "seed1"), mod)
		if err != nil {
			st.Violation(rt, "%s: %v", src, err)
		}
		keys := vfCertKeysFor(p1.Offer, VersionTLS12, "")
		if len(keys) == 0 || !p1.Offer.HasVersion(VersionTLS12) || p1.Offer.Hello.Ext(35) == nil {
			st.Class("resumed12:no-tls12-or-no-session_ticket")
			p1.CP.Close()
			return
		}
		scfg := vfServerConfig(keys[0], vfCertNames(sni)...)
		scfg.MaxVersion = VersionTLS12
		pair1 := &vfPair{CP: p1.CP, SP: p1.SP, Cli: p1.UC, Srv: Server(p1.SP, scfg)}
		if cerr, serr := pair1.Handshake(); cerr != nil || serr != nil || pair1.Echo([]byte("a"), []byte("b")) != nil {
			pair1.Close()
			st.Class("resumed12:first-connection-failed")
			return
		}
		pair1.Close()
		p2, err := vfPrepareClient(src, sni, rapid.Uint64().Draw(rt, "seed2"), mod)
		if err != nil {
			st.Violation(rt, "%s: second hello: %v", src, err)
		}
		defer p2.CP.Close()
		kind := rapid.SampledFrom([]string{"control", "compression", "compression", "alpn-unoffered"}).Draw(rt, "kind")
		s := &vsrv12Script{Version: VersionTLS12, Canary: "none", Resume: true}
		desc := ""
		switch kind {
		case "compression":
			s.Compression = uint8(rapid.IntRange(1, 255).Draw(rt, "comp"))
			for _, c := range p2.Offer.Hello.Compression {
				if c == s.Compression {
					return
				}
			}
			desc = fmt.Sprintf("compression method %d (offered %v)", s.Compression, p2.Offer.Hello.Compression)
		case "alpn-unoffered":
			a := "vf-unoffered"
			s.ALPN = &a
			desc = fmt.Sprintf("ALPN %q (offered %q)", a, p2.Offer.ALPN)
		}
		srv := Server(p2.SP, scfg)
		vsrv12Install(srv, s)
		pair := &vfPair{CP: p2.CP, SP: p2.SP, Cli: p2.UC, Srv: srv}
		cerr, serr := pair.Handshake()
		if cerr == errVfHang || serr == errVfHang {
			st.Violation(rt, "%s resumed12 %s: hang", src, kind)
		}
		if !s.Resumed {
			st.Class("resumed12:ticket-not-offered-or-not-usable")
			return
		}
		cs := pair.Cli.ConnectionState()
		if kind == "control" {
			if cerr != nil || serr != nil || !cs.DidResume {
				st.Violation(rt, "%s: the scripted server resumed the offered TLS 1.2 session without any adversarial value, yet: client err=%v server err=%v didResume=%v", src, cerr, serr, cs.DidResume)
			}
			st.Class("resumed12:control-resumed")
			return
		}
		if cerr == nil || cs.HandshakeComplete || s.Completed {
			st.Violation(rt, "%s: resumed TLS 1.2 session, ServerHello selects %s: the client accepted it (client err=%v complete=%v didResume=%v; server complete=%v err=%v)", src, desc, cerr, cs.HandshakeComplete, cs.DidResume, s.Completed, serr)
		}
		if s.ALPN != nil && cs.NegotiatedProtocol == *s.ALPN {
			st.Violation(rt, "%s: client ConnectionState reports the unoffered protocol %q", src, cs.NegotiatedProtocol)
		}
		st.Class("resumed12:" + kind + "-rejected")
		st.NonTrivial(fmt.Sprintf("resumed12|%s|%s|%d", src.Name, kind, s.Compression))
	})
}
