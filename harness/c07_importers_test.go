//go:build verif

package tls

// C07 - spec importers never panic; valid captures yield usable specs.
// Quick tier: rapid structure-aware mutation of every parrot's ClientHello, generated JSON documents and import
// maps, per-extension Write bodies, directed cases for the known panic classes, replay of corpus/C07.

import (
	"encoding/hex"
	"encoding/json"
	"fmt"
	"os"
	"path/filepath"
	"sort"
	"strconv"
	"strings"
	"testing"

	"github.com/refraction-networking/utls/dicttls"
	"pgregory.net/rapid"
)

func vf07MustSeeds(t testing.TB) []vf07Seed {
	seeds, err := vf07Seeds()
	if err != nil {
		t.Fatalf("C07 cannot build its seed hellos: %v", err)
	}
	return seeds
}

// Every unmodified parrot hello: accepted by the reference parser, imported without error under blunt mimicry,
// applied and marshaled without panic for every flag combination.
func TestVerifC07SeedsUsable(t *testing.T) {
	st := vfNewStats(t, "C07")
	for _, s := range vf07MustSeeds(t) {
		if h, ok := vf07RawValid(s.Rec); !ok {
			if h == nil {
				st.Violation(t, "harness: seed %s (%d bytes) has an inconsistent record header %x", s.Name, len(s.Rec), s.Rec[:min(9, len(s.Rec))])
			}
			st.Violation(t, "harness: seed %s is rejected by the reference parser: %v", s.Name, h.Violations)
		}
		for flags := uint8(0); flags < 32; flags++ {
			vf07CheckRaw(st, t, s.Rec, flags, "seed:"+s.Name)
		}
		var spec ClientHelloSpec
		if err := spec.FromRaw(s.Rec, true, false); err != nil {
			st.Violation(t, "seed %s: FromRaw with blunt mimicry refuses a hello utls itself produced: %v", s.Name, err)
		}
	}
}

// ---- raw mutation ----

func vf07PickExt(rt *rapid.T, m *vf07Msg, label string) int {
	if len(m.Exts) == 0 {
		return -1
	}
	return rapid.IntRange(0, len(m.Exts)-1).Draw(rt, label)
}

var vf07MutOps = []string{"truncBody", "innerLen", "emptyList", "dupExt", "extLenField", "genBody", "retag", "dropExt", "swapExt",
	"addExt", "cutRecord", "extsLenField", "suites", "trailing", "byteFlip", "header", "sid", "noExts", "genBodySame"}

func vf07Mutate(rt *rapid.T, m *vf07Msg, k int) string {
	l := fmt.Sprintf("m%d", k)
	op := vf07MutOps[rapid.IntRange(0, len(vf07MutOps)-1).Draw(rt, l+"_op")]
	i := vf07PickExt(rt, m, l+"_i")
	hostile := func(cur int) int {
		c := append([]int{cur - 1, cur + 1, 2, 4}, vf07HostileLens...)
		v := c[rapid.IntRange(0, len(c)-1).Draw(rt, l+"_hl")]
		if v < 0 {
			v = 0
		}
		return v
	}
	switch op {
	case "truncBody":
		if i >= 0 && len(m.Exts[i].Body) > 0 {
			m.Exts[i].Body = m.Exts[i].Body[:rapid.IntRange(0, len(m.Exts[i].Body)-1).Draw(rt, l+"_k")]
		}
	case "innerLen":
		if i >= 0 && len(m.Exts[i].Body) > 0 {
			b := append([]byte(nil), m.Exts[i].Body...)
			off := rapid.IntRange(0, min(len(b)-1, 12)).Draw(rt, l+"_off")
			if rapid.Bool().Draw(rt, l+"_w2") && off+1 < len(b) {
				v := hostile(int(b[off])<<8 | int(b[off+1]))
				b[off], b[off+1] = byte(v>>8), byte(v)
			} else {
				b[off] = byte(hostile(int(b[off])))
			}
			m.Exts[i].Body = b
		}
	case "emptyList":
		if i >= 0 {
			m.Exts[i].Body = [][]byte{{}, {0}, {0, 0}, {0, 0, 0, 0}}[rapid.IntRange(0, 3).Draw(rt, l+"_e")]
		}
	case "dupExt":
		if i >= 0 {
			j := rapid.IntRange(0, len(m.Exts)).Draw(rt, l+"_j")
			e := m.Exts[i]
			m.Exts = append(m.Exts[:j], append([]vf07Ext{e}, m.Exts[j:]...)...)
		}
	case "extLenField":
		if i >= 0 {
			m.Exts[i].LenOv = hostile(len(m.Exts[i].Body))
		}
	case "genBody", "genBodySame":
		if i >= 0 {
			m.Exts[i].Body = vf07GenBody(rt, l+"_gb", m.Exts[i].Typ)
		}
	case "retag":
		if i >= 0 {
			m.Exts[i].Typ = vf07ExtTypes[rapid.IntRange(0, len(vf07ExtTypes)-1).Draw(rt, l+"_t")]
		}
	case "dropExt":
		if i >= 0 {
			m.Exts = append(m.Exts[:i:i], m.Exts[i+1:]...)
		}
	case "swapExt":
		if i >= 0 {
			j := rapid.IntRange(0, len(m.Exts)-1).Draw(rt, l+"_j")
			m.Exts[i], m.Exts[j] = m.Exts[j], m.Exts[i]
		}
	case "addExt":
		typ := vf07ExtTypes[rapid.IntRange(0, len(vf07ExtTypes)-1).Draw(rt, l+"_t")]
		if rapid.Bool().Draw(rt, l+"_rich") { // bias towards the extensions with nested grammars
			typ = []uint16{51, 41, 0xfe0d, 43, 0, 16, 17513}[rapid.IntRange(0, 6).Draw(rt, l+"_rt")]
		}
		j := rapid.IntRange(0, len(m.Exts)).Draw(rt, l+"_j")
		e := vf07Ext{typ, vf07GenBody(rt, l+"_ab", typ), -1}
		m.Exts = append(m.Exts[:j:j], append([]vf07Ext{e}, m.Exts[j:]...)...)
		m.HasExts = true
	case "cutRecord":
		m.CutAt = rapid.IntRange(0, 1200).Draw(rt, l+"_cut")
	case "extsLenField":
		m.ExtsLenOv = hostile(600)
	case "suites":
		switch rapid.IntRange(0, 3).Draw(rt, l+"_s") {
		case 0:
			m.Suites = append(m.Suites, 0x13)
		case 1:
			m.Suites = nil
		case 2:
			m.SuitesLenOv = hostile(len(m.Suites))
		case 3:
			m.CompLenOv = hostile(len(m.Comp))
		}
	case "trailing":
		m.Trailing = vf07Bytes(rt, l+"_tr", 6)
	case "byteFlip":
		m.Flips = append(m.Flips, [2]int{rapid.IntRange(0, 999).Draw(rt, l+"_pos"), rapid.IntRange(0, 255).Draw(rt, l+"_val")})
	case "header":
		switch rapid.IntRange(0, 3).Draw(rt, l+"_h") {
		case 0:
			m.RecType = byte(rapid.IntRange(0, 255).Draw(rt, l+"_rt"))
		case 1:
			m.HsType = byte(rapid.IntRange(0, 255).Draw(rt, l+"_ht"))
		case 2:
			m.Ver = rapid.Uint16().Draw(rt, l+"_ver")
		case 3:
			m.RecVer = rapid.Uint16().Draw(rt, l+"_rv")
		}
	case "sid":
		m.SIDLenOv = hostile(len(m.SID))
	case "noExts":
		m.HasExts = false
	}
	return op
}

func TestVerifC07RawMutation(t *testing.T) {
	st := vfNewStats(t, "C07")
	seeds := vf07MustSeeds(t)
	rapid.Check(t, func(rt *rapid.T) {
		s := seeds[rapid.IntRange(0, len(seeds)-1).Draw(rt, "seed")]
		m := vf07ParseRec(s.Rec)
		n := rapid.IntRange(1, 3).Draw(rt, "nmut")
		var ops []string
		for k := 0; k < n; k++ {
			ops = append(ops, vf07Mutate(rt, m, k))
		}
		flags := uint8(rapid.IntRange(0, 31).Draw(rt, "flags"))
		rec := m.Bytes()
		for _, o := range ops {
			st.Class("op:" + o)
		}
		st.Sample(map[string]any{"seed": s.Name, "ops": ops, "flags": flags, "len": len(rec)})
		vf07CheckRaw(st, rt, rec, flags, s.Name+"+"+strings.Join(ops, "+"))
	})
}

// Valid-but-unusual hellos: bodies of existing extensions replaced by strict (length-consistent) boundary shapes
// (single-entry / GREASE-only / long lists, several PSK identities, small ECH payloads, unknown groups), extensions
// added (each type at most once, pre_shared_key last), dropped or reordered. Most cases stay syntactically valid,
// which is what the second sentence of the property quantifies over.
func TestVerifC07ValidUnusual(t *testing.T) {
	st := vfNewStats(t, "C07")
	seeds := vf07MustSeeds(t)
	rapid.Check(t, func(rt *rapid.T) {
		s := seeds[rapid.IntRange(0, len(seeds)-1).Draw(rt, "seed")]
		m := vf07ParseRec(s.Rec)
		n := rapid.IntRange(1, 4).Draw(rt, "nops")
		var ops []string
		for k := 0; k < n; k++ {
			l := fmt.Sprintf("v%d", k)
			have := map[uint16]bool{}
			for _, e := range m.Exts {
				have[e.Typ] = true
			}
			lastIsPSK := len(m.Exts) > 0 && m.Exts[len(m.Exts)-1].Typ == 41
			movable := len(m.Exts)
			if lastIsPSK {
				movable--
			}
			op := []string{"strictBody", "strictBody", "addStrict", "addStrict", "drop", "swap", "versions"}[rapid.IntRange(0, 6).Draw(rt, l+"_op")]
			switch op {
			case "versions":
				// record-layer version and legacy_version in any combination of 0x0301..0x0304 (a capture is not obliged
				// to have them ordered), with or without a supported_versions extension
				m.RecVer = uint16(0x0301 + rapid.IntRange(0, 3).Draw(rt, l+"_recver"))
				m.Ver = uint16(0x0301 + rapid.IntRange(0, 3).Draw(rt, l+"_hellover"))
				if rapid.Bool().Draw(rt, l+"_drop_supported_versions") {
					var keep []vf07Ext
					for _, e := range m.Exts {
						if e.Typ != 43 {
							keep = append(keep, e)
						}
					}
					m.Exts = keep
				}
			case "strictBody":
				if len(m.Exts) > 0 {
					i := rapid.IntRange(0, len(m.Exts)-1).Draw(rt, l+"_i")
					m.Exts[i].Body = vf07GenBody(rt, vf07StrictMark+l+"_b", m.Exts[i].Typ)
				}
			case "addStrict":
				typ := vf07ExtTypes[rapid.IntRange(0, len(vf07ExtTypes)-1).Draw(rt, l+"_t")]
				if rapid.Bool().Draw(rt, l+"_rich") {
					typ = []uint16{51, 41, 0xfe0d, 43, 0, 16, 17513, 24, 17}[rapid.IntRange(0, 8).Draw(rt, l+"_rt")]
				}
				if have[typ] || (lastIsPSK && typ == 41) {
					op = "addStrict(skipped: present)"
					break
				}
				e := vf07Ext{typ, vf07GenBody(rt, vf07StrictMark+l+"_b", typ), -1}
				m.HasExts = true
				if typ == 41 {
					m.Exts = append(m.Exts, e)
				} else {
					j := rapid.IntRange(0, movable).Draw(rt, l+"_j")
					m.Exts = append(m.Exts[:j:j], append([]vf07Ext{e}, m.Exts[j:]...)...)
				}
			case "drop":
				if len(m.Exts) > 0 {
					i := rapid.IntRange(0, len(m.Exts)-1).Draw(rt, l+"_i")
					m.Exts = append(m.Exts[:i:i], m.Exts[i+1:]...)
				}
			case "swap":
				if movable > 1 {
					i := rapid.IntRange(0, movable-1).Draw(rt, l+"_i")
					j := rapid.IntRange(0, movable-1).Draw(rt, l+"_j")
					m.Exts[i], m.Exts[j] = m.Exts[j], m.Exts[i]
				}
			}
			ops = append(ops, op)
		}
		flags := uint8(rapid.IntRange(0, 31).Draw(rt, "flags"))
		rec := m.Bytes()
		for _, o := range ops {
			st.Class("vop:" + o)
		}
		if _, ok := vf07RawValid(rec); ok {
			st.Class("unusual: refparse-valid")
		} else {
			st.Class("unusual: not valid")
		}
		st.Sample(map[string]any{"seed": s.Name, "ops": ops, "flags": flags, "len": len(rec)})
		vf07CheckRaw(st, rt, rec, flags, s.Name+"+"+strings.Join(ops, "+"))
	})
}

// ---- JSON documents for ClientHelloSpec.UnmarshalJSON ----

func vf07Fixtures(t testing.TB) map[string][]byte {
	out := map[string][]byte{}
	repo := os.Getenv("VERIF_REPO")
	if repo == "" {
		repo = "/repo"
	}
	files, _ := filepath.Glob(filepath.Join(repo, "testdata", "ClientHello-JSON-*.json"))
	for _, f := range files {
		if b, err := os.ReadFile(f); err == nil {
			out[filepath.Base(f)] = b
		}
	}
	if len(out) == 0 {
		t.Fatalf("C07: no JSON fixtures found under %s/testdata", repo)
	}
	return out
}

var vf07HostileJSON = []string{`{}`, `null`, `[]`, `""`, `0`, `{"cipher_suites":null}`, `{"cipher_suites":[],"compression_methods":[],"extensions":[]}`,
	`{"cipher_suites":[],"compression_methods":[]}`, `{"extensions":[{"name":"GREASE"}]}`, `{"cipher_suites":[],"compression_methods":[],"extensions":null}`,
	`{"cipher_suites":[],"compression_methods":[],"extensions":[{"name":"padding","len":70000}]}`,
	`{"cipher_suites":[],"compression_methods":[],"extensions":[null]}`,
	`{"cipher_suites":[],"compression_methods":[],"extensions":[{"name":"key_share","client_shares":[{"group":"x25519"},{"group":"GREASE"}]}]}`,
	`{"cipher_suites":["GREASE"],"compression_methods":["NULL"],"extensions":[{"name":"pre_shared_key","identities":[{"Label":"AA==","ObfuscatedTicketAge":1}],"binders":["AA=="]}]}`,
	`{"cipher_suites":[],"compression_methods":[],"extensions":[{"name":"supported_versions","versions":[]}],"min_vers":65535,"max_vers":1}`,
	`{"CIPHER_SUITES":null,"cipher_suites":[],"compression_methods":[],"extensions":[]}`,
	`{"cipher_suites":[],"cipher_suites":null,"compression_methods":[],"extensions":[]}`,
}

func vf07SortedKeys[V any](m map[string]V) []string {
	ks := make([]string, 0, len(m))
	for k := range m {
		ks = append(ks, k)
	}
	sort.Strings(ks)
	return ks
}

// hostile replacement values, kept as text so that every use gets a fresh (unshared) tree
var vf07JSONScalarSrc = []string{`null`, `true`, `0`, `-1`, `1`, `65535`, `65536`, `1e99`, `""`, `"GREASE"`, `"x"`, `"TLS 1.3"`, `[]`, `{}`, `[null]`,
	`["GREASE"]`, `[0]`, `{"name":"GREASE"}`, `"AAAA"`}

func vf07Scalar(rt *rapid.T, label string) any {
	var v any
	if err := json.Unmarshal([]byte(vf07JSONScalarSrc[rapid.IntRange(0, len(vf07JSONScalarSrc)-1).Draw(rt, label)]), &v); err != nil {
		panic(err)
	}
	return v
}

// vf07MutateJSON rewrites one random node of a decoded JSON tree.
func vf07MutateJSON(rt *rapid.T, v any, label string, depth int) any {
	descend := rapid.IntRange(0, 3).Draw(rt, label+"_d") != 0 && depth < 6
	switch x := v.(type) {
	case map[string]any:
		keys := vf07SortedKeys(x)
		if len(keys) > 0 && descend {
			k := keys[rapid.IntRange(0, len(keys)-1).Draw(rt, label+"_k")]
			switch rapid.IntRange(0, 5).Draw(rt, label+"_a") {
			case 0:
				delete(x, k)
			case 1:
				x[strings.ToUpper(k)] = x[k]
				delete(x, k)
			default:
				x[k] = vf07MutateJSON(rt, x[k], label+"."+k, depth+1)
			}
			return x
		}
	case []any:
		if len(x) > 0 && descend {
			i := rapid.IntRange(0, len(x)-1).Draw(rt, label+"_i")
			switch rapid.IntRange(0, 6).Draw(rt, label+"_a") {
			case 0:
				return append(x[:i:i], x[i+1:]...)
			case 1:
				return append(x, x[i])
			case 2:
				j := rapid.IntRange(0, len(x)-1).Draw(rt, label+"_j")
				x[i], x[j] = x[j], x[i]
				return x
			default:
				x[i] = vf07MutateJSON(rt, x[i], fmt.Sprintf("%s[%d]", label, i), depth+1)
				return x
			}
		}
	}
	return vf07Scalar(rt, label+"_s")
}

var vf07ExtJSONFields = map[string]string{"named_group_list": "groups", "ec_point_format_list": "points",
	"supported_signature_algorithms": "sigs", "protocol_name_list": "protos", "supported_protocols": "protos", "client_shares": "shares",
	"ke_modes": "modes", "versions": "versions", "algorithms": "calgs", "len": "num", "record_size_limit": "num", "id": "num",
	"data": "b64", "keep_id": "bool", "keep_data": "bool", "identities": "ids", "binders": "b64s", "key_parameters_list": "tbk",
	"token_binding_version": "tbv", "cookie": "bytes"}

func vf07DrawName(rt *rapid.T, label string, names []string) any {
	switch rapid.IntRange(0, 9).Draw(rt, label+"_nk") {
	case 0:
		return "GREASE"
	case 1:
		return vf07Scalar(rt, label+"_ns")
	}
	return names[rapid.IntRange(0, len(names)-1).Draw(rt, label+"_n")]
}

func vf07DrawList(rt *rapid.T, label string, names []string) any {
	n := rapid.IntRange(0, 4).Draw(rt, label+"_len")
	l := make([]any, 0, n)
	for i := 0; i < n; i++ {
		l = append(l, vf07DrawName(rt, fmt.Sprintf("%s_%d", label, i), names))
	}
	return l
}

var (
	vf07NamesExt    = vf07SortedKeys(dicttls.DictExtTypeNameIndexed)
	vf07NamesSuite  = vf07SortedKeys(dicttls.DictCipherSuiteNameIndexed)
	vf07NamesGroup  = vf07SortedKeys(dicttls.DictSupportedGroupsNameIndexed)
	vf07NamesSig    = vf07SortedKeys(dicttls.DictSignatureSchemeNameIndexed)
	vf07NamesComp   = vf07SortedKeys(dicttls.DictCompMethNameIndexed)
	vf07NamesPoint  = vf07SortedKeys(dicttls.DictECPointFormatNameIndexed)
	vf07NamesMode   = vf07SortedKeys(dicttls.DictPSKKeyExchangeModeNameIndexed)
	vf07NamesCAlg   = vf07SortedKeys(dicttls.DictCertificateCompressionAlgorithmNameIndexed)
	vf07NamesFields = vf07SortedKeys(vf07ExtJSONFields)
)

func vf07DrawField(rt *rapid.T, label, kind string) any {
	if rapid.IntRange(0, 7).Draw(rt, label+"_wrong") == 0 {
		return vf07Scalar(rt, label+"_ws")
	}
	switch kind {
	case "groups":
		return vf07DrawList(rt, label, vf07NamesGroup)
	case "points":
		return vf07DrawList(rt, label, vf07NamesPoint)
	case "sigs":
		return vf07DrawList(rt, label, vf07NamesSig)
	case "protos":
		return vf07DrawList(rt, label, []string{"h2", "http/1.1", "", strings.Repeat("a", 300)})
	case "modes":
		return vf07DrawList(rt, label, vf07NamesMode)
	case "versions":
		return vf07DrawList(rt, label, []string{"TLS 1.3", "TLS 1.2", "TLS 1.1", "TLS 1.0", "SSL 3.0"})
	case "calgs":
		return vf07DrawList(rt, label, vf07NamesCAlg)
	case "tbk":
		return vf07DrawList(rt, label, []string{"rsa2048_pkcs1.5", "rsa2048_pss", "ecdsap256"})
	case "num":
		return []any{0, 1, 255, 256, 65535, 65536, -1, 1 << 40, 0x0a0a, 0x1a1a}[rapid.IntRange(0, 9).Draw(rt, label+"_num")]
	case "bool":
		return rapid.Bool().Draw(rt, label+"_b")
	case "b64":
		return []any{"", "AA==", "AAAA", "!!", strings.Repeat("QUJD", 30)}[rapid.IntRange(0, 4).Draw(rt, label+"_b64")]
	case "b64s":
		return vf07DrawList(rt, label, []string{"", "AA==", strings.Repeat("A", 43) + "=", strings.Repeat("A", 64)})
	case "bytes":
		return []any{[]any{1, 2, 3}, "AQID", []any{256}}[rapid.IntRange(0, 2).Draw(rt, label+"_by")]
	case "tbv":
		return map[string]any{"major": rapid.IntRange(0, 300).Draw(rt, label+"_maj"), "minor": 0}
	case "ids":
		n := rapid.IntRange(0, 3).Draw(rt, label+"_n")
		l := []any{}
		for i := 0; i < n; i++ {
			l = append(l, map[string]any{"Label": []any{"", "AA==", strings.Repeat("QUJD", 20)}[rapid.IntRange(0, 2).Draw(rt, fmt.Sprintf("%s_l%d", label, i))],
				"ObfuscatedTicketAge": []any{0, 1, 1 << 32, -1}[rapid.IntRange(0, 3).Draw(rt, fmt.Sprintf("%s_a%d", label, i))]})
		}
		return l
	case "shares":
		n := rapid.IntRange(0, 4).Draw(rt, label+"_n")
		l := []any{}
		for i := 0; i < n; i++ {
			e := map[string]any{"group": vf07DrawName(rt, fmt.Sprintf("%s_g%d", label, i), vf07NamesGroup)}
			switch rapid.IntRange(0, 3).Draw(rt, fmt.Sprintf("%s_k%d", label, i)) {
			case 0:
				e["key_exchange"] = []any{0}
			case 1:
				e["key_exchange"] = []any{}
			case 2:
				e["key_exchange"] = "AAEC"
			}
			l = append(l, e)
		}
		return l
	}
	return nil
}

// fields each extension name understands (others get a random one)
var vf07ExtFieldOf = map[string][]string{"supported_groups": {"named_group_list"}, "ec_point_formats": {"ec_point_format_list"},
	"signature_algorithms": {"supported_signature_algorithms"}, "signature_algorithms_cert": {"supported_signature_algorithms"},
	"delegated_credentials": {"supported_signature_algorithms"}, "application_layer_protocol_negotiation": {"protocol_name_list"},
	"application_settings": {"supported_protocols"}, "key_share": {"client_shares"}, "psk_key_exchange_modes": {"ke_modes"},
	"supported_versions": {"versions"}, "compress_certificate": {"algorithms"}, "padding": {"len"}, "record_size_limit": {"record_size_limit"},
	"GREASE": {"id", "data", "keep_id", "keep_data"}, "pre_shared_key": {"identities", "binders"},
	"token_binding": {"token_binding_version", "key_parameters_list"}, "cookie": {"cookie"}}

func vf07GenJSONDoc(rt *rapid.T) ([]byte, string) {
	top := map[string]any{}
	if rapid.IntRange(0, 19).Draw(rt, "cs_omit") != 0 {
		top["cipher_suites"] = vf07DrawList(rt, "cs", vf07NamesSuite)
	}
	if rapid.IntRange(0, 19).Draw(rt, "cm_omit") != 0 {
		top["compression_methods"] = vf07DrawList(rt, "cm", vf07NamesComp)
	}
	if rapid.IntRange(0, 19).Draw(rt, "ex_omit") != 0 {
		n := rapid.IntRange(0, 8).Draw(rt, "next")
		exts := []any{}
		for i := 0; i < n; i++ {
			l := fmt.Sprintf("e%d", i)
			e := map[string]any{}
			name := vf07DrawName(rt, l, vf07NamesExt)
			e["name"] = name
			ns, _ := name.(string)
			fields := vf07ExtFieldOf[ns]
			if len(fields) == 0 || rapid.IntRange(0, 9).Draw(rt, l+"_rf") == 0 {
				fields = []string{vf07NamesFields[rapid.IntRange(0, len(vf07NamesFields)-1).Draw(rt, l+"_f")]}
			}
			for _, f := range fields {
				if rapid.IntRange(0, 5).Draw(rt, l+"_"+f+"_omit") != 0 {
					e[f] = vf07DrawField(rt, l+"_"+f, vf07ExtJSONFields[f])
				}
			}
			exts = append(exts, e)
		}
		top["extensions"] = exts
	}
	if rapid.Bool().Draw(rt, "vers") {
		top["min_vers"] = vf07DrawField(rt, "minv", "num")
		top["max_vers"] = vf07DrawField(rt, "maxv", "num")
	}
	b, err := json.Marshal(top)
	if err != nil {
		rt.Fatalf("harness: cannot marshal generated document: %v", err)
	}
	return b, "generated"
}

func TestVerifC07SpecJSON(t *testing.T) {
	st := vfNewStats(t, "C07")
	fx := vf07Fixtures(t)
	names := vf07SortedKeys(fx)
	for _, n := range names {
		vf07CheckSpecJSON(st, t, fx[n], true, "fixture:"+n)
	}
	rapid.Check(t, func(rt *rapid.T) {
		var doc []byte
		var origin string
		switch rapid.IntRange(0, 9).Draw(rt, "mode") {
		case 0:
			doc, origin = []byte(vf07HostileJSON[rapid.IntRange(0, len(vf07HostileJSON)-1).Draw(rt, "h")]), "hostile-constant"
		case 1, 2, 3:
			n := names[rapid.IntRange(0, len(names)-1).Draw(rt, "fx")]
			var tree any
			if err := json.Unmarshal(fx[n], &tree); err != nil {
				rt.Fatalf("harness: fixture %s is not JSON: %v", n, err)
			}
			k := rapid.IntRange(1, 3).Draw(rt, "nmut")
			for i := 0; i < k; i++ {
				tree = vf07MutateJSON(rt, tree, fmt.Sprintf("j%d", i), 0)
			}
			doc, _ = json.Marshal(tree)
			origin = "mutated:" + n
		default:
			doc, origin = vf07GenJSONDoc(rt)
		}
		st.Class("jsonsrc:" + strings.SplitN(origin, ":", 2)[0])
		st.Sample(map[string]any{"origin": origin, "doc": string(vf07Trunc(doc))})
		vf07CheckSpecJSON(st, rt, doc, false, origin)
	})
}

// ---- import maps ----

// vf07MapFromHello renders the tlsfingerprint.io style map of a parsed hello (format documented at ImportTLSClientHello).
func vf07MapFromHello(h *vfHello) map[string][]byte {
	m := map[string][]byte{"cipher_suites": {}, "compression_methods": append([]byte{}, h.Compression...), "extensions": {}}
	for _, s := range h.Suites {
		m["cipher_suites"] = append(m["cipher_suites"], byte(s>>8), byte(s))
	}
	strip8 := func(b []byte) []byte {
		if len(b) == 0 {
			return []byte{}
		}
		return append([]byte{}, b[1:]...)
	}
	for _, e := range h.Exts {
		m["extensions"] = append(m["extensions"], byte(e.Type>>8), byte(e.Type))
		body := append([]byte{}, e.Body...)
		switch e.Type {
		case 11:
			m["pt_fmts"] = body
		case 13:
			m["sig_algs"] = body
		case 43:
			m["supported_versions"] = strip8(body)
		case 10:
			m["curves"] = body
		case 16:
			m["alpn"] = body
		case 51:
			ks := []byte{}
			for _, s := range h.KeyShares() {
				ks = append(ks, byte(s.Group>>8), byte(s.Group), byte(len(s.Data)>>8), byte(len(s.Data)))
			}
			m["key_share"] = ks
		case 45:
			m["psk_key_exchange_modes"] = strip8(body)
		case 27:
			m["cert_compression_algs"] = strip8(body)
		case 28:
			m["record_size_limit"] = body
		}
	}
	return m
}

var vf07MapKeys = []string{"cipher_suites", "compression_methods", "extensions", "pt_fmts", "sig_algs", "supported_versions", "curves",
	"alpn", "key_share", "psk_key_exchange_modes", "cert_compression_algs", "record_size_limit", "unknown_key"}

func vf07MutateMap(rt *rapid.T, m map[string][]byte, k int) string {
	l := fmt.Sprintf("mm%d", k)
	key := vf07MapKeys[rapid.IntRange(0, len(vf07MapKeys)-1).Draw(rt, l+"_key")]
	if rapid.IntRange(0, 2).Draw(rt, l+"_ks") == 0 {
		key = "key_share"
	}
	v := m[key]
	op := []string{"delete", "nil", "empty", "trunc", "hostileLen", "random", "appendByte", "setByte", "addExtType"}[rapid.IntRange(0, 8).Draw(rt, l+"_op")]
	switch op {
	case "delete":
		delete(m, key)
	case "nil":
		m[key] = nil
	case "empty":
		m[key] = []byte{}
	case "trunc":
		if len(v) > 0 {
			m[key] = v[:rapid.IntRange(0, len(v)-1).Draw(rt, l+"_n")]
		}
	case "hostileLen":
		n := []int{0, 1, 3, 5, 6, 7, 255, 256, 1021}[rapid.IntRange(0, 8).Draw(rt, l+"_n")]
		b := make([]byte, n)
		for i := range b {
			if i < len(v) {
				b[i] = v[i]
			}
		}
		m[key] = b
	case "random":
		m[key] = vf07Bytes(rt, l+"_r", 12)
	case "appendByte":
		m[key] = append(append([]byte{}, v...), byte(rapid.IntRange(0, 255).Draw(rt, l+"_b")))
	case "setByte":
		if len(v) > 0 {
			b := append([]byte{}, v...)
			b[rapid.IntRange(0, len(b)-1).Draw(rt, l+"_p")] = byte([]int{0, 1, 3, 255, 10, 51}[rapid.IntRange(0, 5).Draw(rt, l+"_v")])
			m[key] = b
		}
	case "addExtType":
		typ := vf07ExtTypes[rapid.IntRange(0, len(vf07ExtTypes)-1).Draw(rt, l+"_t")]
		m["extensions"] = append(append([]byte{}, m["extensions"]...), byte(typ>>8), byte(typ))
	}
	return op
}

func TestVerifC07ImportMap(t *testing.T) {
	st := vfNewStats(t, "C07")
	seeds := vf07MustSeeds(t)
	for _, s := range seeds {
		h, _ := vf07RawValid(s.Rec)
		vf07CheckImportMap(st, t, vf07MapFromHello(h), true, "seed:"+s.Name)
	}
	rapid.Check(t, func(rt *rapid.T) {
		s := seeds[rapid.IntRange(0, len(seeds)-1).Draw(rt, "seed")]
		h, _ := vf07RawValid(s.Rec)
		m := vf07MapFromHello(h)
		n := rapid.IntRange(0, 3).Draw(rt, "nmut")
		var ops []string
		for k := 0; k < n; k++ {
			ops = append(ops, vf07MutateMap(rt, m, k))
		}
		for _, o := range ops {
			st.Class("mapop:" + o)
		}
		st.Sample(map[string]any{"seed": s.Name, "ops": ops, "key_share": hex.EncodeToString(m["key_share"])})
		vf07CheckImportMap(st, rt, m, n == 0, s.Name+"+"+strings.Join(ops, "+"))
	})
}

// ---- extension Write ----

func TestVerifC07ExtWrite(t *testing.T) {
	st := vfNewStats(t, "C07")
	seeds := vf07MustSeeds(t)
	// real bodies per type, from every seed
	real := map[uint16][][]byte{}
	for _, s := range seeds {
		h, _ := vf07RawValid(s.Rec)
		for _, e := range h.Exts {
			t0 := e.Type
			if vfIsGREASE(t0) {
				t0 = 0x0a0a
			}
			real[t0] = append(real[t0], e.Body)
			vf07CheckExtWrite(st, t, e.Type, e.Body, "seed:"+s.Name)
		}
	}
	// hostile constants on every type
	for _, id := range vf07ExtTypes {
		for _, n := range []int{0, 1, 2, 3, 4, 5} {
			for _, fill := range []byte{0, 1, 0xff} {
				b := make([]byte, n)
				for i := range b {
					b[i] = fill
				}
				vf07CheckExtWrite(st, t, id, b, "hostile-constant")
			}
		}
	}
	rapid.Check(t, func(rt *rapid.T) {
		id := vf07ExtTypes[rapid.IntRange(0, len(vf07ExtTypes)-1).Draw(rt, "id")]
		var body []byte
		origin := "generated"
		if bs := real[id]; len(bs) > 0 && rapid.IntRange(0, 2).Draw(rt, "src") == 0 {
			body = append([]byte(nil), bs[rapid.IntRange(0, len(bs)-1).Draw(rt, "real")]...)
			origin = "real+mutated"
			switch rapid.IntRange(0, 3).Draw(rt, "mut") {
			case 0:
				if len(body) > 0 {
					body = body[:rapid.IntRange(0, len(body)-1).Draw(rt, "cut")]
				}
			case 1:
				if len(body) > 0 {
					body[rapid.IntRange(0, min(len(body)-1, 8)).Draw(rt, "pos")] = byte([]int{0, 1, 3, 255}[rapid.IntRange(0, 3).Draw(rt, "val")])
				}
			case 2:
				body = append(body, vf07Bytes(rt, "tail", 4)...)
			}
		} else {
			body = vf07GenBody(rt, "b", id)
		}
		st.Class(fmt.Sprintf("exttype:%d", id))
		st.Sample(map[string]any{"id": id, "origin": origin, "body": vfHex(body)})
		vf07CheckExtWrite(st, rt, id, body, origin)
	})
}

// ---- directed cases for the known classes ----

func TestVerifC07Directed(t *testing.T) {
	st := vfNewStats(t, "C07")
	// (1) key_share length 3 (and 5, 7): the 4-byte stepping loop slices past the end
	for _, ks := range [][]byte{{0, 29, 0}, {0, 29, 0, 32, 0}, {0, 29, 0, 32, 0, 23, 0}, {1}} {
		m := map[string][]byte{"cipher_suites": {0x13, 0x01}, "compression_methods": {0}, "extensions": {0, 51}, "key_share": ks}
		vf07CheckImportMap(st, t, m, false, "directed-keyshare")
	}
	// multiples of 4 must be fine
	vf07CheckImportMap(st, t, map[string][]byte{"cipher_suites": {0x13, 0x01}, "compression_methods": {0}, "extensions": {0, 51},
		"key_share": {0, 29, 0, 32}}, false, "directed-keyshare-ok")
	jb, _ := json.Marshal(map[string][]byte{"cipher_suites": {0x13, 0x01}, "compression_methods": {0}, "extensions": {0, 51}, "key_share": {0, 29, 0}})
	vf07CheckImportJSON(st, t, jb, "directed-keyshare-json")
	// (2) missing / null top-level members
	for _, d := range []string{`{}`, `null`, `{"cipher_suites":[],"compression_methods":[]}`, `{"cipher_suites":[],"extensions":[]}`,
		`{"compression_methods":[],"extensions":[]}`, `{"cipher_suites":[],"compression_methods":[],"extensions":null}`} {
		vf07CheckSpecJSON(st, t, []byte(d), false, "directed-missing-member")
	}
	vf07CheckSpecJSON(st, t, []byte(`{"cipher_suites":[],"compression_methods":[],"extensions":[]}`), false, "directed-all-present")
	for _, d := range vf07HostileJSON {
		vf07CheckSpecJSON(st, t, []byte(d), false, "hostile-constant")
		vf07CheckImportJSON(st, t, []byte(d), "hostile-constant")
	}
}

// ---- corpus replay: corpus/C07/{raw,json,map,importjson,ext}-*  ----
// raw-*: "<flags decimal>\n<hex>"; json-*/importjson-*: the document; map-*: JSON object of base64 values;
// ext-*: "<id decimal>\n<hex body>".

func vf07CorpusDir() string {
	d := os.Getenv("VERIF_DIR")
	if d == "" {
		d = "/verif"
	}
	return filepath.Join(d, "corpus", "C07")
}

func vf07SplitHeadHex(b []byte) (int, []byte, error) {
	parts := strings.SplitN(strings.TrimSpace(string(b)), "\n", 2)
	if len(parts) != 2 {
		return 0, nil, fmt.Errorf("want two lines")
	}
	n, err := strconv.Atoi(strings.TrimSpace(parts[0]))
	if err != nil {
		return 0, nil, err
	}
	raw, err := hex.DecodeString(strings.TrimSpace(parts[1]))
	return n, raw, err
}

func TestVerifC07CorpusReplay(t *testing.T) {
	st := vfNewStats(t, "C07")
	files, _ := filepath.Glob(filepath.Join(vf07CorpusDir(), "*"))
	sort.Strings(files)
	for _, f := range files {
		b, err := os.ReadFile(f)
		if err != nil {
			continue
		}
		base := filepath.Base(f)
		st.Class("corpus:" + strings.SplitN(base, "-", 2)[0])
		switch {
		case strings.HasPrefix(base, "raw-"):
			flags, rec, err := vf07SplitHeadHex(b)
			if err != nil {
				t.Fatalf("corpus file %s: %v", base, err)
			}
			vf07CheckRaw(st, t, rec, uint8(flags), "corpus:"+base)
		case strings.HasPrefix(base, "json-"):
			vf07CheckSpecJSON(st, t, b, false, "corpus:"+base)
		case strings.HasPrefix(base, "importjson-"):
			vf07CheckImportJSON(st, t, b, "corpus:"+base)
		case strings.HasPrefix(base, "map-"):
			var m map[string][]byte
			if err := json.Unmarshal(b, &m); err != nil {
				t.Fatalf("corpus file %s: %v", base, err)
			}
			vf07CheckImportMap(st, t, m, false, "corpus:"+base)
		case strings.HasPrefix(base, "ext-"):
			id, body, err := vf07SplitHeadHex(b)
			if err != nil {
				t.Fatalf("corpus file %s: %v", base, err)
			}
			vf07CheckExtWrite(st, t, uint16(id), body, "corpus:"+base)
		}
	}
	st.Extra("corpus_files", len(files))
}
