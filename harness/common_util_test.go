//go:build verif

package tls

import (
	"crypto/sha256"
	"encoding/hex"
	"fmt"
	"runtime/debug"
)

func vfHashHex(b []byte) string {
	h := sha256.Sum256(b)
	return hex.EncodeToString(h[:10])
}

type vfPanic struct {
	Val   any
	Stack string
}

func (p *vfPanic) String() string { return fmt.Sprintf("panic: %v\n%s", p.Val, p.Stack) }

// vfCatch runs f and returns the recovered panic, if any.
func vfCatch(f func()) (p *vfPanic) {
	defer func() {
		if r := recover(); r != nil {
			p = &vfPanic{Val: r, Stack: string(debug.Stack())}
		}
	}()
	f()
	return nil
}

func vfHex(b []byte) string {
	if len(b) > 64 {
		return hex.EncodeToString(b[:64]) + fmt.Sprintf("...(%d bytes)", len(b))
	}
	return hex.EncodeToString(b)
}
