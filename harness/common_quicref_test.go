//go:build verif

package tls

// Independent RFC 9000 section 16 varint codec and transport-parameter TLV parser (reference for C24/C02/C04).

import (
	"encoding/binary"
	"fmt"
)

// ---- reference codec (RFC 9000 section 16) ----

func vfRefVarintLen(x uint64) int {
	switch {
	case x < 1<<6:
		return 1
	case x < 1<<14:
		return 2
	case x < 1<<30:
		return 4
	case x < 1<<62:
		return 8
	}
	return -1
}

// vfRefVarintDecode decodes one varint from b, returning value, width, ok.
func vfRefVarintDecode(b []byte) (uint64, int, bool) {
	if len(b) == 0 {
		return 0, 0, false
	}
	w := 1 << (b[0] >> 6)
	if len(b) < w {
		return 0, 0, false
	}
	var buf [8]byte
	copy(buf[8-w:], b[:w])
	buf[8-w] &= 0x3f
	return binary.BigEndian.Uint64(buf[:]), w, true
}

func vfRefVarintEncode(x uint64, w int) []byte {
	var buf [8]byte
	binary.BigEndian.PutUint64(buf[:], x)
	out := append([]byte(nil), buf[8-w:]...)
	switch w {
	case 2:
		out[0] |= 0x40
	case 4:
		out[0] |= 0x80
	case 8:
		out[0] |= 0xc0
	}
	return out
}

type vfTLV struct {
	id  uint64
	val []byte
}

func vfParseTLVs(b []byte) ([]vfTLV, error) {
	var out []vfTLV
	for len(b) > 0 {
		id, w, ok := vfRefVarintDecode(b)
		if !ok {
			return nil, fmt.Errorf("truncated id")
		}
		if w != vfRefVarintLen(id) {
			return nil, fmt.Errorf("non-minimal id encoding")
		}
		b = b[w:]
		l, w, ok := vfRefVarintDecode(b)
		if !ok {
			return nil, fmt.Errorf("truncated length")
		}
		if w != vfRefVarintLen(l) {
			return nil, fmt.Errorf("non-minimal length encoding")
		}
		b = b[w:]
		if uint64(len(b)) < l {
			return nil, fmt.Errorf("value truncated: want %d have %d", l, len(b))
		}
		out = append(out, vfTLV{id, append([]byte(nil), b[:l]...)})
		b = b[l:]
	}
	return out, nil
}
