//go:build verif

package tls

// C01 - the ClientHello on the wire is exactly HandshakeState.Hello.Raw as rebuilt at handshake start, every
// documented edit made between BuildHandshakeState and Handshake is visible in those bytes, and after the
// handshake Hello.Raw equals the last ClientHello actually sent (the second one after a HelloRetryRequest).
//
// Observation: vfConn.probe reads Hello.Raw inside the first client Write (on the handshake goroutine); the
// recorder keeps the bytes; the reference parser decodes them. Depends on c02_genspec_test.go for custom specs.

import (
	"bytes"
	"fmt"
	"strings"
	"testing"

	"pgregory.net/rapid"
)

// wire type a library extension object is expected to carry (independent of Len/Read); -1 = GREASE, -2 = unknown
func vf01WireType(e TLSExtension) int {
	switch x := e.(type) {
	case *SNIExtension:
		return 0
	case *StatusRequestExtension:
		return 5
	case *SupportedCurvesExtension:
		return 10
	case *SupportedPointsExtension:
		return 11
	case *SignatureAlgorithmsExtension:
		return 13
	case *ALPNExtension:
		return 16
	case *StatusRequestV2Extension:
		return 17
	case *SCTExtension:
		return 18
	case *UtlsPaddingExtension:
		return 21
	case *ExtendedMasterSecretExtension:
		return 23
	case *FakeTokenBindingExtension:
		return 24
	case *UtlsCompressCertExtension:
		return 27
	case *FakeRecordSizeLimitExtension:
		return 28
	case *FakeDelegatedCredentialsExtension:
		return 34
	case *SessionTicketExtension:
		return 35
	case *UtlsPreSharedKeyExtension, *FakePreSharedKeyExtension:
		return 41
	case *SupportedVersionsExtension:
		return 43
	case *CookieExtension:
		return 44
	case *PSKKeyExchangeModesExtension:
		return 45
	case *SignatureAlgorithmsCertExtension:
		return 50
	case *KeyShareExtension:
		return 51
	case *QUICTransportParametersExtension:
		return 57
	case *NPNExtension:
		return 13172
	case *ApplicationSettingsExtension:
		return 17513
	case *ApplicationSettingsExtensionNew:
		return 17613
	case *FakeChannelIDExtension:
		if x.OldExtensionID {
			return 30031
		}
		return 30032
	case *GREASEEncryptedClientHelloExtension:
		return 0xfe0d
	case *RenegotiationInfoExtension:
		return 0xff01
	case *GenericExtension:
		return int(x.Id)
	case *UtlsGREASEExtension:
		return -1
	}
	return -2
}

// vf01Align maps every extension object to the wire type it produced in hello h (-3 = not emitted).
func vf01Align(exts []TLSExtension, h *vfHello) (map[TLSExtension]int, bool) {
	out := map[TLSExtension]int{}
	k := 0
	for _, e := range exts {
		want := vf01WireType(e)
		if want == -2 {
			return nil, false
		}
		if k < len(h.Exts) && (int(h.Exts[k].Type) == want || (want == -1 && vfIsGREASE(h.Exts[k].Type))) {
			out[e] = int(h.Exts[k].Type)
			k++
		} else {
			out[e] = -3
		}
	}
	return out, k == len(h.Exts)
}

type vf01Model struct {
	random  []byte
	sni     *string
	sniNone bool // the last SetSNI used a name that is not sent (IP literal, empty): no server_name extension expected
	suites  []uint16
	sid     []byte
	hasSid  bool
	alpn    []string
	newExts map[TLSExtension]int
	kinds   []string
}

func vf01SessionExt(e TLSExtension) bool {
	switch e.(type) {
	case *SessionTicketExtension, *UtlsPreSharedKeyExtension, *FakePreSharedKeyExtension:
		return true
	}
	return false
}

func vf01ApplyMutators(t *rapid.T, uc *UConn, m *vf01Model) {
	n := rapid.IntRange(0, 6).Draw(t, "nmut")
	for i := 0; i < n; i++ {
		l := fmt.Sprintf("mut%d", i)
		switch rapid.IntRange(0, 8).Draw(t, l) {
		case 0:
			r := rapid.SliceOfN(rapid.Byte(), 32, 32).Draw(t, l+"_random")
			if err := uc.SetClientRandom(r); err != nil {
				t.Fatalf("SetClientRandom: %v", err)
			}
			m.random = append([]byte(nil), r...)
			if rapid.Bool().Draw(t, l+"_reuse_buffer") {
				// the caller's buffer is its own: reusing it afterwards must not change the value that was set
				for j := range r {
					r[j] ^= 0xa5
				}
				m.kinds = append(m.kinds, "random-buffer-reused")
			} else {
				m.kinds = append(m.kinds, "random")
			}
		case 1:
			name := vfGenDNSName(t, l+"_sni")
			switch rapid.IntRange(0, 8).Draw(t, l+"_sni_kind") {
			case 8: // the name is edited on the SNIExtension object itself (an edit to Extensions), to nothing or to another name
				var se *SNIExtension
				for _, e := range uc.Extensions {
					if x, ok := e.(*SNIExtension); ok {
						se = x
					}
				}
				if se == nil {
					continue
				}
				if rapid.Bool().Draw(t, l+"_sni_direct_clear") {
					se.ServerName = ""
					none := ""
					m.sni, m.sniNone = &none, true
					m.kinds = append(m.kinds, "sni-extension-name-cleared")
				} else {
					se.ServerName = name
					m.sni, m.sniNone = &name, false
					m.kinds = append(m.kinds, "sni-extension-name-edited")
				}
				continue
			case 0: // names that are not sent as SNI (RFC 6066: no IP literals): the extension disappears
				name = rapid.SampledFrom([]string{"192.0.2.7", "2001:db8::7", ""}).Draw(t, l+"_sni_literal")
				uc.SetSNI(name)
				none := ""
				m.sni, m.sniNone = &none, true
				m.kinds = append(m.kinds, "sni-cleared")
				continue
			case 1: // absolute name: the trailing dot is not part of the SNI value
				uc.SetSNI(name + ".")
				m.kinds = append(m.kinds, "sni-trailing-dot")
				m.sni, m.sniNone = &name, false
				continue
			}
			uc.SetSNI(name)
			m.sni, m.sniNone = &name, false
			m.kinds = append(m.kinds, "sni")
		case 2:
			cur := uc.HandshakeState.Hello.CipherSuites
			var nl []uint16
			switch rapid.IntRange(0, 2).Draw(t, l+"_sk") {
			case 0: // rotate
				if len(cur) > 0 {
					r := rapid.IntRange(0, len(cur)-1).Draw(t, l+"_rot")
					nl = append(append(nl, cur[r:]...), cur[:r]...)
				}
			case 1: // drop the last one, append a marker suite
				nl = append(nl, cur...)
				if len(nl) > 1 {
					nl = nl[:len(nl)-1]
				}
				nl = append(nl, FAKE_TLS_DHE_RSA_WITH_AES_256_CBC_SHA256)
			case 2:
				nl = []uint16{TLS_AES_128_GCM_SHA256, TLS_CHACHA20_POLY1305_SHA256, TLS_ECDHE_ECDSA_WITH_AES_128_GCM_SHA256, TLS_ECDHE_RSA_WITH_AES_128_GCM_SHA256}
			}
			if len(nl) == 0 {
				nl = []uint16{TLS_AES_128_GCM_SHA256}
			}
			uc.HandshakeState.Hello.CipherSuites = nl
			m.suites = nl
			m.kinds = append(m.kinds, "suites")
		case 3:
			sid := rapid.SliceOfN(rapid.Byte(), 0, 32).Draw(t, l+"_sid")
			uc.HandshakeState.Hello.SessionId = sid
			m.sid, m.hasSid = sid, true
			m.kinds = append(m.kinds, "sid")
		case 4: // insert a GenericExtension (not behind a trailing pre_shared_key)
			id := []uint16{0x7b01, 0x7b02, 0x7b03, 0x7b04, 0x7b05, 0x7b06}[i]
			g := &GenericExtension{Id: id, Data: rapid.SliceOfN(rapid.Byte(), 0, 40).Draw(t, l+"_gdata")}
			max := len(uc.Extensions)
			if max > 0 && vf01WireType(uc.Extensions[max-1]) == 41 {
				max--
			}
			pos := rapid.IntRange(0, max).Draw(t, l+"_gpos")
			uc.Extensions = append(uc.Extensions[:pos:pos], append([]TLSExtension{g}, uc.Extensions[pos:]...)...)
			m.newExts[g] = int(id)
			m.kinds = append(m.kinds, "add-ext")
		case 5: // delete a non-session extension
			var cand []int
			for k, e := range uc.Extensions {
				if !vf01SessionExt(e) {
					cand = append(cand, k)
				}
			}
			if len(cand) == 0 {
				continue
			}
			k := cand[rapid.IntRange(0, len(cand)-1).Draw(t, l+"_del")]
			if a, ok := uc.Extensions[k].(*ALPNExtension); ok && a != nil {
				m.alpn = nil
			}
			uc.Extensions = append(uc.Extensions[:k:k], uc.Extensions[k+1:]...)
			m.kinds = append(m.kinds, "del-ext")
		case 6: // change the ALPN list
			for _, e := range uc.Extensions {
				if a, ok := e.(*ALPNExtension); ok {
					nl := []string{"vf-" + string(vfGsAlnum(t, l+"_alpn", rapid.IntRange(1, 20).Draw(t, l+"_alpnlen"))), "http/1.1"}
					a.AlpnProtocols = nl
					m.alpn = nl
					m.kinds = append(m.kinds, "alpn")
				}
			}
		case 7: // swap two non-session extensions
			var cand []int
			for k, e := range uc.Extensions {
				if !vf01SessionExt(e) {
					cand = append(cand, k)
				}
			}
			if len(cand) < 2 {
				continue
			}
			a := cand[rapid.IntRange(0, len(cand)-1).Draw(t, l+"_swa")]
			b := cand[rapid.IntRange(0, len(cand)-1).Draw(t, l+"_swb")]
			uc.Extensions[a], uc.Extensions[b] = uc.Extensions[b], uc.Extensions[a]
			if a != b {
				m.kinds = append(m.kinds, "swap-ext")
			}
		case 8: // pin (or switch off) the padding extension: no length functor, WillPad / PaddingLen set by the caller
			var pe *UtlsPaddingExtension
			for _, e := range uc.Extensions {
				if x, ok := e.(*UtlsPaddingExtension); ok {
					pe = x
				}
			}
			if pe == nil {
				pe = &UtlsPaddingExtension{}
				max := len(uc.Extensions)
				if max > 0 && vf01WireType(uc.Extensions[max-1]) == 41 {
					max--
				}
				pos := rapid.IntRange(0, max).Draw(t, l+"_padpos")
				uc.Extensions = append(uc.Extensions[:pos:pos], append([]TLSExtension{pe}, uc.Extensions[pos:]...)...)
			}
			pe.GetPaddingLen = nil
			pe.WillPad = rapid.IntRange(0, 3).Draw(t, l+"_willpad") != 0
			pe.PaddingLen = rapid.SampledFrom([]int{0, 1, 2, 37, 100, 201, 300, 511}).Draw(t, l+"_padlen")
			m.kinds = append(m.kinds, "pad-fixed")
		}
	}
}

func vf01TypesNoPadding(h *vfHello) []int {
	var out []int
	for _, e := range h.Exts {
		if e.Type != 21 {
			out = append(out, int(e.Type))
		}
	}
	return out
}

var vf01TicketKey = [32]byte{0xc0, 0x01, 1, 2, 3, 4, 5, 6, 7, 8, 9, 10, 11, 12, 13, 14, 15, 16, 17, 18, 19, 20, 21, 22, 23, 24, 25, 26, 27, 28, 29, 30}

func TestVerifC01WireIsRaw(t *testing.T) {
	st := vfNewStats(t, "C01")
	rapid.Check(t, func(rt *rapid.T) {
		// ---- source ----
		var src vfClientSrc
		var meta *vfSpecMeta
		switch k := rapid.IntRange(0, 9).Draw(rt, "source"); {
		case k < 5:
			p := vfGenParrot(rt, "parrot")
			src = vfClientSrc{Kind: "parrot", Name: p.Name, ID: p.ID}
		case k < 7:
			src = vfGenRandomizedID(rt, "rnd")
		default:
			var spec *ClientHelloSpec
			spec, meta = vfGenCustomSpec(rt)
			src = vfClientSrc{Kind: "custom", Name: meta.Mode, ID: HelloCustom, Spec: spec}
		}
		if rapid.IntRange(0, 7).Draw(rt, "psk_parrot") == 0 {
			var psk []vfParrot
			for _, p := range vfParrots {
				if vfIsPSKParrot(p) {
					psk = append(psk, p)
				}
			}
			p := psk[rapid.IntRange(0, len(psk)-1).Draw(rt, "psk_parrot_idx")]
			src, meta = vfClientSrc{Kind: "parrot", Name: p.Name, ID: p.ID}, nil
		}
		sni0 := vfGenDNSName(rt, "sni0")
		cfg := vfClientConfig(sni0)
		cfg.InsecureSkipVerify = true // SetSNI changes the name; certificate checks are C14's business
		cfg.OmitEmptyPsk = true
		cfg.Rand = vfNewDetRand(rapid.Uint64().Draw(rt, "rand"), "c01")
		withCache := rapid.IntRange(0, 2).Draw(rt, "cache") == 0
		if withCache {
			// a (cold) session cache switches on the session-loading path of BuildHandshakeState
			cfg.ClientSessionCache = NewLRUClientSessionCache(4)
			cfg.PreferSkipResumptionOnNilExtension = true // custom specs without session extensions: documented switch
		}
		// a WARM cache for the parrots that carry pre_shared_key: an earlier connection of the same fingerprint left a
		// TLS 1.3 ticket, so the hello under test resumes and its binders are patched in at every (re)build
		warm := false
		if withCache && src.Kind == "parrot" && strings.Contains(src.Name, "PSK") && rapid.IntRange(0, 3).Draw(rt, "warm_cache") != 0 {
			s0 := vfServerConfig("ecdsa", sni0, "public.c01.test")
			s0.SetSessionTicketKeys([][32]byte{vf01TicketKey})
			c0 := *cfg
			c0.Rand = nil
			p0 := vfNewPair(&c0, src.ID, s0)
			cerr0, serr0 := p0.Handshake()
			if cerr0 == nil && serr0 == nil && p0.Echo([]byte("prime"), []byte("PRIME")) == nil {
				warm = true
				st.Class("warm-session-cache(psk-parrot)")
			}
			p0.Close()
		}
		// a real ECH configuration: the hello is then marshalled through the inner/outer construction, at every build
		withECH := rapid.IntRange(0, 4).Draw(rt, "ech_config") == 0
		var echKey EncryptedClientHelloKey
		if withECH {
			cfg.EncryptedClientHelloConfigList, echKey = vfMakeECHConfig(rapid.Uint64Range(1, 250).Draw(rt, "ech_id"), "public.c01.test")
		}
		cp, sp := vfPipe()
		uc := UClient(cp, cfg, src.ID)
		var err error
		if pan := vfCatch(func() {
			if src.Spec != nil {
				if err = uc.ApplyPreset(src.Spec); err != nil {
					return
				}
			}
			// the hello is built for inspection with either of the two documented calls
			if rapid.IntRange(0, 3).Draw(rt, "first_build_without_session") == 0 {
				err = uc.BuildHandshakeStateWithoutSession()
				st.Class("first-build:BuildHandshakeStateWithoutSession")
			} else {
				err = uc.BuildHandshakeState()
			}
		}); pan != nil {
			st.Class("build-panic")
			return // C02/C20 judge build-time panics
		}
		if err != nil {
			st.Class("build-error")
			return
		}
		raw0 := append([]byte(nil), uc.HandshakeState.Hello.Raw...)
		if len(raw0) == 0 {
			// the build reported success but left no Hello.Raw to inspect: then no ClientHello may go out either
			// (only HelloGolang marshals lazily, and it is not in this domain)
			st.Eval()
			st.Class("built-without-raw")
			p := &vfPair{CP: cp, SP: sp, Cli: uc, Srv: Server(sp, vfServerConfig("ecdsa", "public.c01.test"))}
			var cerr error
			if pan := vfCatch(func() { cerr, _ = p.Handshake() }); pan != nil {
				st.Violation(rt, "%s: Handshake panicked: %v", src, pan.Val)
			}
			defer p.Close()
			if hs := vfClientHellosOnWire(cp.Written()); len(hs) != 0 && !bytes.Equal(hs[0], uc.HandshakeState.Hello.Raw) {
				st.Violation(rt, "%s ech-config=%v: BuildHandshakeState succeeded with an empty Hello.Raw, and the handshake then wrote a %d-byte ClientHello the caller never saw (Hello.Raw afterwards %d bytes; handshake: %v)",
					src, withECH, len(hs[0]), len(uc.HandshakeState.Hello.Raw), cerr)
			}
			return
		}
		h0 := vfParseClientHello(raw0)
		if len(h0.Violations) != 0 {
			st.Class("first-build-invalid")
			return // C02's business (known findings there)
		}
		align, ok := vf01Align(uc.Extensions, h0)
		if !ok {
			rt.Fatalf("harness: cannot align uconn.Extensions with the first hello (%s)", src)
		}
		// ---- edits between BuildHandshakeState and Handshake ----
		m := &vf01Model{newExts: map[TLSExtension]int{}}
		if a := h0.ALPN(); a != nil {
			m.alpn = a
		}
		vf01ApplyMutators(rt, uc, m)
		// a padding extension without length functor is sent exactly as the caller set it
		padFixed, padWant := false, -1
		for _, e := range uc.Extensions {
			if x, ok := e.(*UtlsPaddingExtension); ok && x.GetPaddingLen == nil {
				padFixed = true
				if x.WillPad {
					padWant = x.PaddingLen
				}
			}
		}
		// expected extension-type sequence (padding excluded: its presence depends on the new length)
		var wantTypes []int
		for _, e := range uc.Extensions {
			if id, isNew := m.newExts[e]; isNew {
				wantTypes = append(wantTypes, id)
				continue
			}
			if _, isSNI := e.(*SNIExtension); isSNI && m.sni != nil {
				if !m.sniNone {
					wantTypes = append(wantTypes, 0) // SetSNI put a DNS name into it, so it is sent even if it was not before
				}
				continue
			}
			if _, isPad := e.(*UtlsPaddingExtension); isPad {
				continue // judged separately (padFixed)
			}
			if wt := align[e]; wt != -3 && wt != 21 {
				wantTypes = append(wantTypes, wt)
			}
		}
		// ---- server ----
		srvKind := []string{"plain13", "plain13", "plain12", "hrr", "hrr", "reject"}[rapid.IntRange(0, 5).Draw(rt, "server")]
		scfg := vfServerConfig("ecdsa", sni0, "public.c01.test")
		if warm {
			scfg.SetSessionTicketKeys([][32]byte{vf01TicketKey})
		}
		if withECH {
			st.Class("client-with-ech-config")
			if rapid.Bool().Draw(rt, "server_has_ech_key") {
				scfg.EncryptedClientHelloKeys = []EncryptedClientHelloKey{echKey}
			}
		}
		switch srvKind {
		case "plain12":
			scfg.MaxVersion = VersionTLS12
		case "hrr":
			// a group the client lists without a share
			var cand []CurveID
			shares := map[uint16]bool{}
			for _, ks := range h0.KeyShares() {
				shares[ks.Group] = true
			}
			for _, g := range h0.Groups() {
				if vfContains16(vfClassicalGroups, g) && !shares[g] {
					cand = append(cand, CurveID(g))
				}
			}
			if len(cand) == 0 || h0.Ext(51) == nil {
				srvKind = "plain13"
			} else {
				scfg.CurvePreferences = []CurveID{cand[rapid.IntRange(0, len(cand)-1).Draw(rt, "hrr_group")]}
			}
		case "reject":
			scfg.MaxVersion = VersionTLS12
			scfg.MinVersion = VersionTLS12
			scfg.CipherSuites = []uint16{TLS_RSA_WITH_RC4_128_SHA}
		}
		// ---- run ----
		probeCalls := 0
		cp.probe = func([]byte) any {
			probeCalls++
			if probeCalls > 1 {
				return nil
			}
			return append([]byte(nil), uc.HandshakeState.Hello.Raw...)
		}
		p := &vfPair{CP: cp, SP: sp, Cli: uc, Srv: Server(sp, scfg)}
		var cerr error
		if pan := vfCatch(func() { cerr, _ = p.Handshake() }); pan != nil {
			st.Violation(rt, "%s: Handshake panicked: %v", src, pan.Val)
		}
		defer p.Close()
		if cerr == errVfHang {
			rt.Fatalf("%s: handshake did not return", src)
		}
		st.Eval()
		st.Class("source:" + src.Kind)
		st.Class("server:" + srvKind)
		if withCache {
			st.Class("with-session-cache")
		}
		what := fmt.Sprintf("%s server=%s edits=%v", src, srvKind, m.kinds)
		writes := cp.Writes()
		hellos := vfClientHellosOnWire(cp.Written())
		if len(writes) == 0 || len(hellos) == 0 {
			if cerr == nil {
				st.Violation(rt, "%s: handshake succeeded without a ClientHello on the wire", what)
			}
			st.Class("outcome:error-before-hello")
			return
		}
		if cerr == nil {
			st.Class("outcome:handshake-ok")
		} else {
			st.Class("outcome:handshake-failed")
		}
		// (1) wire == Hello.Raw at the instant of the first write
		rawAtWrite, _ := writes[0].Probe.([]byte)
		if !bytes.Equal(hellos[0], rawAtWrite) {
			st.Violation(rt, "%s: first ClientHello on the wire (%d bytes, %s) differs from Hello.Raw at that instant (%d bytes, %s)",
				what, len(hellos[0]), vfHashHex(hellos[0]), len(rawAtWrite), vfHashHex(rawAtWrite))
		}
		// the first record carries the beginning of those bytes
		recs, _ := vfSplitRecords(cp.Written())
		if len(recs) == 0 || recs[0].Type != 22 || !bytes.HasPrefix(hellos[0], recs[0].Body) {
			st.Violation(rt, "%s: the first record written is not the start of the ClientHello", what)
		}
		// (2) every edit is visible in those bytes
		h := vfParseClientHello(hellos[0])
		if len(h.Violations) == 0 {
			if m.random != nil && !bytes.Equal(h.Random, m.random) {
				st.Violation(rt, "%s: SetClientRandom not visible on the wire", what)
			}
			if m.suites != nil && fmt.Sprint(h.Suites) != fmt.Sprint(m.suites) {
				st.Violation(rt, "%s: Hello.CipherSuites edit not visible: wire %04x, set %04x", what, h.Suites, m.suites)
			}
			if m.hasSid && !bytes.Equal(h.SessionID, m.sid) {
				st.Violation(rt, "%s: Hello.SessionId edit not visible: wire %x, set %x", what, h.SessionID, m.sid)
			}
			if padFixed {
				got := -1
				if e := h.Ext(21); e != nil {
					got = len(e.Body)
				}
				if got != padWant {
					st.Violation(rt, "%s: padding extension without length functor set to %d bytes by the caller (-1 = switched off), the wire has %d", what, padWant, got)
				}
			}
			got01 := vf01TypesNoPadding(h)
			want01 := wantTypes
			if warm {
				// whether the resuming hello carries pre_shared_key (attached by the build that Handshake performs when
				// the first build was sessionless) is the session controller's business (C19/C20), not an edit
				strip := func(l []int) []int {
					if n := len(l); n > 0 && l[n-1] == 41 {
						return l[:n-1]
					}
					return l
				}
				got01, want01 = strip(got01), strip(want01)
			}
			if got := got01; fmt.Sprint(got) != fmt.Sprint(want01) {
				st.Violation(rt, "%s: extension list edits not visible: wire %v, expected %v", what, got, want01)
			}
			if m.sni != nil && !(withECH && h.Ext(0xfe0d) != nil) {
				if name, present := h.SNI(); present && m.sniNone {
					st.Violation(rt, "%s: SetSNI with a name that is not sent as SNI (IP literal or empty): wire still has server_name %q", what, name)
				}
				if name, present := h.SNI(); present && name != *m.sni {
					st.Violation(rt, "%s: SetSNI(%q) not visible: wire has %q", what, *m.sni, name)
				}
			}
			if h.Ext(16) != nil && m.alpn != nil && strings.Join(h.ALPN(), ",") != strings.Join(m.alpn, ",") {
				st.Violation(rt, "%s: ALPN edit not visible: wire %q, set %q", what, h.ALPN(), m.alpn)
			}
			if len(m.kinds) == 0 && !withECH && !warm && !bytes.Equal(hellos[0], raw0) { // (with ECH every build seals afresh; a resuming hello carries the ticket age of its build)
				// no edit: the rebuilt hello is the one the caller inspected
				st.Violation(rt, "%s: without edits the hello sent differs from the one built and inspected", what)
			}
		} else {
			st.Class("edited-hello-invalid")
		}
		// (3) after the handshake Hello.Raw is the last ClientHello sent
		after := uc.HandshakeState.Hello.Raw
		last := hellos[len(hellos)-1]
		if len(hellos) == 2 {
			st.Class("hrr-occurred")
		}
		if !bytes.Equal(after, last) {
			which := "the only"
			if len(hellos) == 2 {
				which = "the second (post-HRR)"
				if bytes.Equal(after, hellos[0]) {
					which += "; it still holds the first one"
				}
			}
			st.Violation(rt, "%s: after Handshake (err=%v) Hello.Raw (%d bytes) is not %s ClientHello sent (%d bytes)", what, cerr, len(after), which, len(last))
		}
		if len(m.kinds) > 0 || len(hellos) == 2 {
			st.NonTrivial(fmt.Sprintf("%s|%v|%s|%d", src, m.kinds, srvKind, len(hellos)))
		}
		for _, k := range m.kinds {
			st.Class("edit:" + k)
		}
		st.Sample(map[string]any{"source": src.String(), "edits": m.kinds, "server": srvKind, "hellos": len(hellos), "handshake_err": fmt.Sprint(cerr)})
	})
}

// Directed: every parrot with a TLS 1.3 key share, forced HelloRetryRequest, no edits.
func TestVerifC01HRRAllParrots(t *testing.T) {
	st := vfNewStats(t, "C01")
	for _, p := range vfParrots {
		cfg := vfClientConfig("hrr.example.test")
		cfg.OmitEmptyPsk = true
		cp, sp := vfPipe()
		uc := UClient(cp, cfg, p.ID)
		if err := uc.BuildHandshakeState(); err != nil {
			st.Violation(t, "%s: BuildHandshakeState: %v", p.Name, err)
		}
		h0 := vfParseClientHello(uc.HandshakeState.Hello.Raw)
		if h0.Ext(51) == nil {
			continue
		}
		shares := map[uint16]bool{}
		for _, ks := range h0.KeyShares() {
			shares[ks.Group] = true
		}
		var group CurveID
		for _, g := range h0.Groups() {
			if vfContains16(vfClassicalGroups, g) && !shares[g] {
				group = CurveID(g)
				break
			}
		}
		if group == 0 {
			continue
		}
		scfg := vfServerConfig("ecdsa", "hrr.example.test")
		scfg.CurvePreferences = []CurveID{group}
		cp.probe = func([]byte) any { return append([]byte(nil), uc.HandshakeState.Hello.Raw...) }
		pr := &vfPair{CP: cp, SP: sp, Cli: uc, Srv: Server(sp, scfg)}
		cerr, _ := pr.Handshake()
		st.Eval()
		hellos := vfClientHellosOnWire(cp.Written())
		pr.Close()
		if len(hellos) != 2 {
			st.Class("no-hrr")
			continue
		}
		st.Class("hrr")
		st.NonTrivial(p.Name + "|hrr")
		if raw, _ := cp.Writes()[0].Probe.([]byte); !bytes.Equal(raw, hellos[0]) {
			st.Violation(t, "%s: first hello on the wire differs from Hello.Raw", p.Name)
		}
		if !bytes.Equal(uc.HandshakeState.Hello.Raw, hellos[1]) {
			st.Violation(t, "%s: after the handshake (err=%v) Hello.Raw is not the second ClientHello", p.Name, cerr)
		}
		h2 := vfParseClientHello(hellos[1])
		if ks := h2.KeyShares(); len(ks) != 1 || ks[0].Group != uint16(group) {
			st.Violation(t, "%s: second ClientHello does not carry exactly the requested share", p.Name)
		}
	}
}
