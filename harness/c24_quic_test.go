//go:build verif

package tls

// C24 - QUIC transport parameters and varints encode losslessly.
// Oracle: an independent RFC 9000 section 16 varint codec and TLV parser written here.

import (
	"bytes"
	"encoding/binary"
	"fmt"
	"testing"

	"github.com/refraction-networking/utls/internal/quicvarint"
	"github.com/refraction-networking/utls/internal/quicvarint/protocol"
	"pgregory.net/rapid"
)

var vfVarintBoundaries = []uint64{0, 1, 62, 63, 64, 65, 16382, 16383, 16384, 16385, 1<<30 - 2, 1<<30 - 1, 1 << 30, 1<<30 + 1,
	1<<62 - 2, 1<<62 - 1, 1 << 62, 1<<62 + 1, 1<<63 - 1, 1 << 63, 1<<64 - 1, 255, 256, 1<<32 - 1, 1 << 32}

func vfGenU64(t *rapid.T, label string) uint64 {
	switch rapid.IntRange(0, 5).Draw(t, label+"_kind") {
	case 0:
		return vfVarintBoundaries[rapid.IntRange(0, len(vfVarintBoundaries)-1).Draw(t, label+"_b")]
	case 1:
		base := []uint64{1 << 6, 1 << 14, 1 << 30, 1 << 62}[rapid.IntRange(0, 3).Draw(t, label+"_base")]
		return base + uint64(rapid.IntRange(-40, 40).Draw(t, label+"_d"))
	case 2:
		bits := rapid.IntRange(0, 64).Draw(t, label+"_bits")
		v := rapid.Uint64().Draw(t, label+"_v")
		if bits == 0 {
			return 0
		}
		if bits < 64 {
			v &= (1 << uint(bits)) - 1
			v |= 1 << uint(bits-1)
		}
		return v
	default:
		return rapid.Uint64().Draw(t, label+"_u")
	}
}

func vfNearBoundary(x uint64) bool {
	for _, b := range []uint64{1 << 6, 1 << 14, 1 << 30, 1 << 62} {
		if x+2 >= b && x <= b+2 {
			return true
		}
	}
	return x >= 1<<62
}

func TestVerifC24Varint(t *testing.T) {
	st := vfNewStats(t, "C24")
	rapid.Check(t, func(rt *rapid.T) {
		x := vfGenU64(rt, "x")
		w := []int{1, 2, 4, 8}[rapid.IntRange(0, 3).Draw(rt, "w")]
		prefix := rapid.SliceOfN(rapid.Byte(), 0, 5).Draw(rt, "prefix")
		st.Eval()
		key := fmt.Sprintf("v:%d/%d", x, w)
		if vfNearBoundary(x) {
			st.NonTrivial(key)
			st.Class("near-boundary-or-over")
		}
		st.Sample(map[string]any{"value": fmt.Sprintf("%#x", x), "width": w, "prefix_len": len(prefix)})

		rl := vfRefVarintLen(x)
		if rl < 0 {
			// must be refused by panic, never truncated
			st.Class("over-62-bits")
			var out []byte
			if p := vfCatch(func() { out = quicvarint.Append(append([]byte(nil), prefix...), x) }); p == nil {
				st.Violation(rt, "Append(%#x) did not panic, returned %x", x, out)
			}
			if p := vfCatch(func() { quicvarint.Len(x) }); p == nil {
				st.Violation(rt, "Len(%#x) did not panic", x)
			}
			if p := vfCatch(func() { out = quicvarint.AppendWithLen(nil, x, protocol.ByteCount(w)) }); p == nil {
				st.Violation(rt, "AppendWithLen(%#x,%d) did not panic, returned %x", x, w, out)
			}
			return
		}
		// destination buffers: fresh, or a reused scratch buffer whose spare capacity holds stale non-zero bytes
		dirty := rapid.Bool().Draw(rt, "reused_buffer_with_stale_bytes")
		mkDst := func() []byte {
			if !dirty {
				return append([]byte(nil), prefix...)
			}
			b := make([]byte, len(prefix)+24)
			for i := range b {
				b[i] = 0xff
			}
			copy(b, prefix)
			return b[:len(prefix)]
		}
		if dirty {
			st.Class("destination-with-stale-capacity")
		}
		// Append: minimal encoding of Len(x) bytes, prefix kept, decodes back to x
		in := mkDst()
		out := quicvarint.Append(in, x)
		if !bytes.HasPrefix(out, prefix) {
			st.Violation(rt, "Append(%#x) clobbered the prefix: %x", x, out)
		}
		enc := out[len(prefix):]
		if len(enc) != rl {
			st.Violation(rt, "Append(%#x) emitted %d bytes, minimal is %d", x, len(enc), rl)
		}
		if int(quicvarint.Len(x)) != rl {
			st.Violation(rt, "Len(%#x)=%d, reference %d", x, quicvarint.Len(x), rl)
		}
		if !bytes.Equal(enc, vfRefVarintEncode(x, rl)) {
			st.Violation(rt, "Append(%#x)=%x, reference %x", x, enc, vfRefVarintEncode(x, rl))
		}
		rd := bytes.NewReader(enc)
		got, err := quicvarint.Read(rd)
		if err != nil || got != x || rd.Len() != 0 {
			st.Violation(rt, "Read(Append(%#x)) = %#x, err=%v, %d bytes left", x, got, err, rd.Len())
		}
		// truncated input must be an error, never a value
		if rl > 1 {
			cut := rapid.IntRange(1, rl-1).Draw(rt, "cut")
			if v, err := quicvarint.Read(bytes.NewReader(enc[:cut])); err == nil {
				st.Violation(rt, "Read of %d/%d bytes of %x returned %#x without error", cut, rl, enc, v)
			}
		}
		// AppendWithLen
		var wl []byte
		p := vfCatch(func() { wl = quicvarint.AppendWithLen(mkDst(), x, protocol.ByteCount(w)) })
		if rl > w {
			st.Class("width-too-small")
			if p == nil {
				st.Violation(rt, "AppendWithLen(%#x,%d) must refuse (needs %d bytes) but returned %x", x, w, rl, wl)
			}
		} else {
			if p != nil {
				st.Violation(rt, "AppendWithLen(%#x,%d) panicked: %v", x, w, p.Val)
			}
			if !bytes.HasPrefix(wl, prefix) {
				st.Violation(rt, "AppendWithLen clobbered prefix")
			}
			e2 := wl[len(prefix):]
			if len(e2) != w {
				st.Violation(rt, "AppendWithLen(%#x,%d) emitted %d bytes: %x", x, w, len(e2), e2)
			}
			v, ww, ok := vfRefVarintDecode(e2)
			if !ok || ww != w || v != x {
				st.Violation(rt, "AppendWithLen(%#x,%d)=%x decodes (reference) to %#x width %d ok=%v", x, w, e2, v, ww, ok)
			}
			rd := bytes.NewReader(e2)
			if g, err := quicvarint.Read(rd); err != nil || g != x || rd.Len() != 0 {
				st.Violation(rt, "Read(AppendWithLen(%#x,%d)=%x) = %#x err=%v", x, w, e2, g, err)
			}
			if w > rl {
				st.Class("non-minimal-width")
			}
		}
	})
}

// Read must agree with the reference decoder on arbitrary bytes.
func TestVerifC24ReadArbitrary(t *testing.T) {
	st := vfNewStats(t, "C24")
	rapid.Check(t, func(rt *rapid.T) {
		b := rapid.SliceOfN(rapid.Byte(), 0, 10).Draw(rt, "bytes")
		st.Eval()
		v, w, ok := vfRefVarintDecode(b)
		rd := bytes.NewReader(b)
		g, err := quicvarint.Read(rd)
		if ok != (err == nil) {
			st.Violation(rt, "Read(%x): err=%v, reference ok=%v", b, err, ok)
		}
		if ok {
			if g != v || len(b)-rd.Len() != w {
				st.Violation(rt, "Read(%x)=%#x consumed %d; reference %#x width %d", b, g, len(b)-rd.Len(), v, w)
			}
			if w > vfRefVarintLen(v) {
				st.NonTrivial(fmt.Sprintf("r:%x", b[:w]))
				st.Class("non-minimal-input")
			}
		}
	})
}

type vfTP struct {
	tp   TransportParameter
	desc string
	// for integer-valued parameters: the number (checked to be the varint in Value)
	num    uint64
	isNum  bool
	grease bool
	fake   bool
}

func vfGenTP(t *rapid.T, i int) vfTP {
	l := fmt.Sprintf("tp%d", i)
	kind := rapid.IntRange(0, 19).Draw(t, l+"_kind")
	num := func() uint64 {
		v := vfGenU64(t, l+"_n")
		if v >= 1<<62 {
			v &= 1<<62 - 1
		}
		return v
	}
	switch kind {
	case 0:
		n := num()
		return vfTP{tp: MaxIdleTimeout(n), desc: "MaxIdleTimeout", num: n, isNum: true}
	case 1:
		n := num()
		return vfTP{tp: MaxUDPPayloadSize(n), desc: "MaxUDPPayloadSize", num: n, isNum: true}
	case 2:
		n := num()
		return vfTP{tp: InitialMaxData(n), desc: "InitialMaxData", num: n, isNum: true}
	case 3:
		n := num()
		return vfTP{tp: InitialMaxStreamDataBidiLocal(n), desc: "InitialMaxStreamDataBidiLocal", num: n, isNum: true}
	case 4:
		n := num()
		return vfTP{tp: InitialMaxStreamDataBidiRemote(n), desc: "InitialMaxStreamDataBidiRemote", num: n, isNum: true}
	case 5:
		n := num()
		return vfTP{tp: InitialMaxStreamDataUni(n), desc: "InitialMaxStreamDataUni", num: n, isNum: true}
	case 6:
		n := num()
		return vfTP{tp: InitialMaxStreamsBidi(n), desc: "InitialMaxStreamsBidi", num: n, isNum: true}
	case 7:
		n := num()
		return vfTP{tp: InitialMaxStreamsUni(n), desc: "InitialMaxStreamsUni", num: n, isNum: true}
	case 8:
		n := num()
		return vfTP{tp: MaxAckDelay(n), desc: "MaxAckDelay", num: n, isNum: true}
	case 9:
		return vfTP{tp: &DisableActiveMigration{}, desc: "DisableActiveMigration"}
	case 10:
		n := num()
		return vfTP{tp: ActiveConnectionIDLimit(n), desc: "ActiveConnectionIDLimit", num: n, isNum: true}
	case 11:
		if rapid.IntRange(0, 3).Draw(t, l+"_cidnil") == 0 {
			return vfTP{tp: InitialSourceConnectionID(nil), desc: "InitialSourceConnectionID(nil)"} // zero-length CID as a nil slice
		}
		return vfTP{tp: InitialSourceConnectionID(rapid.SliceOfN(rapid.Byte(), 0, 20).Draw(t, l+"_cid")), desc: "InitialSourceConnectionID"}
	case 12:
		vi := &VersionInformation{
			ChoosenVersion:    rapid.Uint32().Draw(t, l+"_cv"),
			AvailableVersions: rapid.SliceOfN(rapid.SampledFrom([]uint32{VERSION_1, VERSION_2, VERSION_NEGOTIATION, 0xdeadbeef, 0x1a2a3a4a}), 0, 5).Draw(t, l+"_av"),
			LegacyID:          rapid.Bool().Draw(t, l+"_legacy"),
		}
		return vfTP{tp: vi, desc: "VersionInformation"}
	case 13:
		if rapid.IntRange(0, 4).Draw(t, l+"_padnil") == 0 {
			return vfTP{tp: PaddingTransportParameter(nil), desc: "Padding(nil)"}
		}
		return vfTP{tp: PaddingTransportParameter(make([]byte, rapid.IntRange(0, 300).Draw(t, l+"_pad"))), desc: "Padding"}
	case 14:
		n := num()
		return vfTP{tp: MaxDatagramFrameSize(n), desc: "MaxDatagramFrameSize", num: n, isNum: true}
	case 15:
		return vfTP{tp: &GREASEQUICBit{}, desc: "GREASEQUICBit"}
	case 16, 17:
		g := &GREASETransportParameter{}
		switch rapid.IntRange(0, 2).Draw(t, l+"_gk") {
		case 0: // all random
			g.Length = uint16(rapid.IntRange(0, 70).Draw(t, l+"_glen"))
		case 1: // valid id override
			mult := rapid.Uint64Range(0, GREASE_MAX_MULTIPLIER-1).Draw(t, l+"_gm")
			g.IdOverride = 27 + 31*mult
			g.ValueOverride = rapid.SliceOfN(rapid.Byte(), 1, 40).Draw(t, l+"_gv")
		case 2: // invalid id override => library must pick a valid one
			g.IdOverride = rapid.Uint64Range(0, 1<<20).Draw(t, l+"_gbad")
			g.Length = uint16(rapid.IntRange(0, 20).Draw(t, l+"_glen"))
		}
		return vfTP{tp: g, desc: "GREASE", grease: true}
	default:
		id := vfGenU64(t, l+"_fid")
		if id >= 1<<62 {
			id &= 1<<62 - 1
		}
		if id == 0 {
			id = 1
		}
		if rapid.IntRange(0, 4).Draw(t, l+"_fnil") == 0 {
			return vfTP{tp: &FakeQUICTransportParameter{Id: id}, desc: "Fake(no value)", fake: true} // flag-style parameter: Val left unset
		}
		return vfTP{tp: &FakeQUICTransportParameter{Id: id, Val: rapid.SliceOfN(rapid.Byte(), 0, 80).Draw(t, l+"_fv")}, desc: "Fake", fake: true}
	}
}

func TestVerifC24Params(t *testing.T) {
	st := vfNewStats(t, "C24")
	rapid.Check(t, func(rt *rapid.T) {
		n := rapid.IntRange(0, 12).Draw(rt, "n")
		var tps TransportParameters
		var meta []vfTP
		interesting := false
		for i := 0; i < n; i++ {
			m := vfGenTP(rt, i)
			meta = append(meta, m)
			tps = append(tps, m.tp)
			if m.grease || m.fake {
				interesting = true
			}
		}
		st.Eval()
		// snapshot the drawn GREASE settings before the library mutates them
		type gsnap struct {
			id     uint64
			length uint16
			val    []byte
		}
		snaps := map[int]gsnap{}
		for i, m := range meta {
			if g, ok := m.tp.(*GREASETransportParameter); ok {
				snaps[i] = gsnap{g.IdOverride, g.Length, append([]byte(nil), g.ValueOverride...)}
			}
		}
		ext := &QUICTransportParametersExtension{TransportParameters: tps}
		body := tps.Marshal()
		tlvs, err := vfParseTLVs(body)
		if err != nil {
			st.Violation(rt, "Marshal output does not parse as (id,len,value)*: %v; body=%x", err, body)
		}
		if len(tlvs) != len(tps) {
			st.Violation(rt, "Marshal emitted %d entries for %d parameters", len(tlvs), len(tps))
		}
		descs := []string{}
		keyparts := ""
		for i, m := range meta {
			descs = append(descs, m.desc)
			id, val := m.tp.ID(), m.tp.Value()
			if tlvs[i].id != id || !bytes.Equal(tlvs[i].val, val) {
				st.Violation(rt, "entry %d (%s): wire (%#x,%x) != parameter (%#x,%x)", i, m.desc, tlvs[i].id, tlvs[i].val, id, val)
			}
			keyparts += fmt.Sprintf("%x:%d,", id, len(val))
			if m.isNum {
				v, w, ok := vfRefVarintDecode(val)
				if !ok || w != len(val) || v != m.num || w != vfRefVarintLen(m.num) {
					st.Violation(rt, "%s(%d): value bytes %x are not the minimal varint of the number", m.desc, m.num, val)
				}
			}
			if m.grease {
				s := snaps[i]
				if id < 27 || (id-27)%31 != 0 || id >= 1<<62 {
					st.Violation(rt, "GREASE transport parameter id %#x is not 31*N+27 below 2^62", id)
				}
				if s.id >= 27 && (s.id-27)%31 == 0 && id != s.id {
					st.Violation(rt, "valid GREASE id override %#x replaced by %#x", s.id, id)
				}
				if len(s.val) > 0 && !bytes.Equal(val, s.val) {
					st.Violation(rt, "GREASE value override not used")
				}
				if len(s.val) == 0 && len(val) != int(s.length) {
					st.Violation(rt, "GREASE value has %d bytes, Length=%d", len(val), s.length)
				}
			}
			if vi, ok := m.tp.(*VersionInformation); ok {
				want := version_information
				if vi.LegacyID {
					want = version_information_legacy
				}
				if id != want || len(val) != 4+4*len(vi.AvailableVersions) || binary.BigEndian.Uint32(val) != vi.ChoosenVersion {
					st.Violation(rt, "VersionInformation encoded as (%#x,%x)", id, val)
				}
				for j, v := range vi.AvailableVersions {
					if got := binary.BigEndian.Uint32(val[4+4*j:]); got != v {
						st.Violation(rt, "VersionInformation other version %d: %#x != %#x", j, got, v)
					}
				}
			}
		}
		// the TLS extension wrapper
		l := ext.Len()
		buf := make([]byte, l)
		nr, _ := ext.Read(buf)
		body2 := ext.marshalResult
		if nr != l || l != 4+len(body2) || binary.BigEndian.Uint16(buf) != 57 || int(binary.BigEndian.Uint16(buf[2:])) != len(body2) || !bytes.Equal(buf[4:], body2) {
			st.Violation(rt, "QUICTransportParametersExtension framing wrong: Len=%d Read=%d hdr=%x", l, nr, buf[:4])
		}
		t2, err := vfParseTLVs(body2)
		if err != nil || len(t2) != len(tps) {
			st.Violation(rt, "extension body does not parse: %v", err)
		}
		for i := range t2 {
			if t2[i].id != tps[i].ID() || !bytes.Equal(t2[i].val, tps[i].Value()) {
				st.Violation(rt, "extension body entry %d differs from parameter", i)
			}
		}
		if interesting {
			st.NonTrivial("p:" + keyparts)
			st.Class("list-with-grease-or-fake")
		}
		st.Sample(map[string]any{"params": descs, "body": vfHex(body)})
	})
}

// Numeric parameters >= 2^62 and fake parameters with unencodable ids must be refused, not truncated.
func TestVerifC24ParamsRefuse(t *testing.T) {
	st := vfNewStats(t, "C24")
	rapid.Check(t, func(rt *rapid.T) {
		x := rapid.Uint64Range(1<<62, 1<<64-1).Draw(rt, "x")
		which := rapid.IntRange(0, 2).Draw(rt, "which")
		st.Eval()
		st.NonTrivial(fmt.Sprintf("refuse:%d:%d", which, x))
		var tps TransportParameters
		switch which {
		case 0:
			tps = TransportParameters{InitialMaxData(x)}
		case 1:
			tps = TransportParameters{&FakeQUICTransportParameter{Id: x, Val: []byte{1}}}
		case 2:
			tps = TransportParameters{MaxIdleTimeout(5), MaxDatagramFrameSize(x)}
		}
		var out []byte
		if p := vfCatch(func() { out = tps.Marshal() }); p == nil {
			st.Violation(rt, "Marshal with 62-bit overflow value %#x (case %d) returned %x instead of panicking", x, which, out)
		}
	})
}
