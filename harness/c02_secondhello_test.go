//go:build verif

package tls

// C02 (extension): the SECOND ClientHello is an emitted hello too. Upstream's server never sends a cookie, so the
// cookie-carrying variant of the retry was never marshalled in the C02 sessions: here the scripted server answers with a
// HelloRetryRequest (a listed classical group without share and/or a cookie of drawn length), and both hellos on the
// wire go through the strict grammar (no repeated extension type, consistent lengths, ...).

import (
	"fmt"
	"testing"

	"pgregory.net/rapid"
)

func TestVerifC02SecondHello(t *testing.T) {
	st := vfNewStats(t, "C02")
	rapid.Check(t, func(rt *rapid.T) {
		src := vfGenTLS13Src(rt)
		sni := vfGenDNSName(rt, "sni")
		st.Eval()
		p, err := vfPrepareClient(src, sni, rapid.Uint64().Draw(rt, "randseed"), nil)
		if err != nil {
			st.Class("second-hello:prepare-failed")
			return
		}
		defer p.CP.Close()
		o := p.Offer
		if !o.HasVersion(VersionTLS13) || o.PSK {
			st.Class("second-hello:not-applicable")
			return
		}
		var noShare []uint16
		for _, g := range o.Groups {
			if vfContains16(vfClassicalGroups, g) && !vfContains16(o.Shares, g) {
				noShare = append(noShare, g)
			}
		}
		s := &vsrvScript{HRR: true}
		mode := rapid.IntRange(0, 2).Draw(rt, "mode")
		if mode != 1 && len(noShare) > 0 {
			s.HRRGroup = noShare[rapid.IntRange(0, len(noShare)-1).Draw(rt, "group")]
		}
		if mode != 0 || s.HRRGroup == 0 {
			n := rapid.SampledFrom([]int{1, 2, 32, 255, 256, 300, 1200, 5000, 20000}).Draw(rt, "cookie_len")
			s.HRRCookie = rapid.SliceOfN(rapid.Byte(), n, n).Draw(rt, "cookie")
		}
		keys := vfCertKeysFor(o, VersionTLS13, "")
		if len(keys) == 0 {
			return
		}
		srv := Server(p.SP, vfServerConfig(keys[0], vfCertNames(sni)...))
		vsrvInstall(srv, s)
		pair := &vfPair{CP: p.CP, SP: p.SP, Cli: p.UC, Srv: srv}
		var cerr error
		if pan := vfCatch(func() { cerr, _ = pair.Handshake() }); pan != nil {
			st.Violation(rt, "%s: HelloRetryRequest (group %04x, cookie %d bytes): panic %v", src, s.HRRGroup, len(s.HRRCookie), pan.Val)
		}
		hellos := vfClientHellosOnWire(p.CP.Written())
		what := fmt.Sprintf("%s | HelloRetryRequest group=%04x cookie=%d bytes", src, s.HRRGroup, len(s.HRRCookie))
		for k, raw := range hellos {
			if vf02CheckHello(st, rt, raw, vf02Ctx{What: fmt.Sprintf("%s hello#%d", what, k), ECHPayload: -1}) == nil {
				return
			}
		}
		st.Class(fmt.Sprintf("second-hello:hellos=%d", len(hellos)))
		if len(hellos) == 2 {
			if s.HRRCookie != nil {
				st.Class("second-hello:with-cookie")
			}
			st.NonTrivial(fmt.Sprintf("second|%s|%04x|%d", src.Kind+":"+src.Name, s.HRRGroup, len(s.HRRCookie)))
		}
		st.Sample(map[string]any{"source": src.String(), "hrr": what, "hellos": len(hellos), "client_error": fmt.Sprint(cerr)})
	})
}
