//go:build verif

package tls

// C29 - Roller prefers the last working fingerprint and tries each configured one at most once.
//
// A loopback TCP listener runs an upstream tls.Server whose GetConfigForClient recognises the fingerprint of every
// ClientHello (signature over cipher suites / extension set / groups / signature schemes / versions, GREASE masked,
// learnt beforehand by sending each parrot's hello with a plain UClient to a recording server) and accepts only a subset that the test draws per Dial
// (keyed by the unique server name of that Dial). The attempt log of the server is compared with a model of Roller.Dial.
// Roller passes a nil Config, so trust comes from the process environment: SSL_CERT_FILE/SSL_CERT_DIR are pointed at
// the harness CA before the first use of the system roots.

import (
	"crypto/x509"
	"encoding/pem"
	"errors"
	"fmt"
	"net"
	"os"
	"path/filepath"
	"sort"
	"strings"
	"sync"
	"testing"
	"time"

	"pgregory.net/rapid"
)

const vf29Domain = ".c29.vf.test"

// every wait of the harness is bounded by this; expiry is an environment problem, never a verdict
const vf29Wait = 90 * time.Second

func vf29Inconclusive(msg string) {
	fmt.Fprintf(os.Stderr, "panic: test timed out (C29 harness, environment problem: %s)\n", msg)
	os.Exit(3)
}

// ---- trust -----------------------------------------------------------------------------------------------------

var vf29TrustOnce sync.Once

func vf29TrustSetup() {
	vf29TrustOnce.Do(func() {
		dir, err := os.MkdirTemp("", "vf29-trust-")
		if err != nil {
			vf29Inconclusive("cannot create temp dir: " + err.Error())
		}
		empty := filepath.Join(dir, "certs.d")
		os.Mkdir(empty, 0o755)
		pemBytes := pem.EncodeToMemory(&pem.Block{Type: "CERTIFICATE", Bytes: vfGetCA("main").Cert.Raw})
		file := filepath.Join(dir, "ca.pem")
		if err := os.WriteFile(file, pemBytes, 0o644); err != nil {
			vf29Inconclusive("cannot write CA file: " + err.Error())
		}
		os.Setenv("SSL_CERT_FILE", file)
		os.Setenv("SSL_CERT_DIR", empty)
		// the system pool is loaded once per process: load it now, then the files are no longer needed
		if pool, err := x509.SystemCertPool(); err != nil || pool == nil {
			vf29Inconclusive(fmt.Sprintf("cannot load the substitute system pool: %v", err))
		}
		os.RemoveAll(dir)
	})
}

// ---- fingerprint signatures ------------------------------------------------------------------------------------

func vf29Mask(v uint16) uint16 {
	if vfIsGREASE(v) {
		return 0x0a0a
	}
	return v
}

func vf29Sig(suites, exts, groups, sigs, vers []uint16) string {
	var sb strings.Builder
	w := func(tag string, l []uint16, sorted bool) {
		c := make([]int, 0, len(l))
		for _, v := range l {
			c = append(c, int(vf29Mask(v)))
		}
		if sorted {
			sort.Ints(c)
		}
		fmt.Fprintf(&sb, "%s%v;", tag, c)
	}
	w("s", suites, false)
	var e []uint16
	for _, x := range exts {
		if x == 21 || x == 41 { // padding depends on the hello length (hence on the server name); PSK on the cache
			continue
		}
		e = append(e, x)
	}
	w("e", e, true) // several parrots shuffle their extensions
	w("g", groups, false)
	w("a", sigs, false)
	w("v", vers, false)
	return sb.String()
}

type vf29Pool struct {
	ids   []vfParrot
	bySig map[string]int
	sigs  []string
}

var (
	vf29PoolOnce sync.Once
	vf29ThePool  *vf29Pool
)

// vf29ChiSig is the signature as the server computes it from a ClientHelloInfo.
func vf29ChiSig(chi *ClientHelloInfo) string {
	gr := make([]uint16, len(chi.SupportedCurves))
	for i, v := range chi.SupportedCurves {
		gr[i] = uint16(v)
	}
	sg := make([]uint16, len(chi.SignatureSchemes))
	for i, v := range chi.SignatureSchemes {
		sg[i] = uint16(v)
	}
	return vf29Sig(chi.CipherSuites, chi.Extensions, gr, sg, chi.SupportedVersions)
}

// vf29GetPool learns the signature of every non-PSK parrot by sending its hello (plain UClient over an in-memory
// pipe, no Roller involved) to a server that only records the ClientHelloInfo, and keeps the parrots whose signature is
// unique (distinguishable by the server) and stable over two connections with different server names.
func vf29GetPool() *vf29Pool {
	vf29PoolOnce.Do(func() {
		type ent struct {
			p   vfParrot
			sig string
		}
		var all []ent
		count := map[string]int{}
		learn := func(p vfParrot, name string) string {
			var sig string
			scfg := &Config{Certificates: []Certificate{*vfLeaf(vfLeafSpec{Names: []string{"*" + vf29Domain}})}, MinVersion: VersionTLS10}
			scfg.GetConfigForClient = func(chi *ClientHelloInfo) (*Config, error) {
				sig = vf29ChiSig(chi)
				return nil, errors.New("vf29: learning only")
			}
			pair := vfNewPair(&Config{ServerName: name}, p.ID, scfg)
			pair.Handshake()
			pair.Close()
			return sig
		}
		for _, p := range vfParrots {
			if vfIsPSKParrot(p) {
				continue // cannot be built with the nil Config Roller uses (ErrEmptyPsk)
			}
			s1 := learn(p, "a"+vf29Domain)
			s2 := learn(p, "a-much-longer-server-name-than-the-first-one.sub"+vf29Domain)
			if s1 == "" || s1 != s2 {
				continue
			}
			all = append(all, ent{p, s1})
			count[s1]++
		}
		pool := &vf29Pool{bySig: map[string]int{}}
		for _, e := range all {
			if count[e.sig] == 1 {
				pool.bySig[e.sig] = len(pool.ids)
				pool.ids = append(pool.ids, e.p)
				pool.sigs = append(pool.sigs, e.sig)
			}
		}
		vf29ThePool = pool
	})
	return vf29ThePool
}

// ---- the server ------------------------------------------------------------------------------------------------

type vf29Attempt struct {
	Seq      int
	Idx      int // index in the pool, -1 = unrecognised fingerprint
	SNI      string
	Accepted bool
}

type vf29Server struct {
	pool     *vf29Pool
	ln       net.Listener
	addr     string
	mu       sync.Mutex
	attempts []vf29Attempt
	accept   map[string]map[int]bool // server name -> accepted pool indices
	tcp      int                     // accepted TCP connections
	conns    []net.Conn
	wg       sync.WaitGroup
	nameCtr  int
	stall    map[string]bool // server name -> fingerprints that are not accepted are black-holed (no answer) instead of refused
}

// vf29StallFor is how long a black-holed ClientHello stays unanswered; the Roller of the stall test gives each attempt
// vf29StallTimeout.
const (
	vf29StallFor     = 6 * time.Second
	vf29StallTimeout = 1500 * time.Millisecond
)

func vf29NewServer(t *testing.T) *vf29Server {
	pool := vf29GetPool()
	s := &vf29Server{pool: pool, accept: map[string]map[int]bool{}, stall: map[string]bool{}}
	leaf := vfLeaf(vfLeafSpec{KeyType: "ecdsa", Names: []string{"*" + vf29Domain},
		NotBefore: vfPKIEpoch.Add(-9 * 365 * 24 * time.Hour), NotAfter: vfPKIEpoch.Add(9 * 365 * 24 * time.Hour)})
	base := &Config{Certificates: []Certificate{*leaf}, MinVersion: VersionTLS10, MaxVersion: VersionTLS13, CipherSuites: vfAllServerSuites()}
	base.GetConfigForClient = func(chi *ClientHelloInfo) (*Config, error) {
		sig := vf29ChiSig(chi)
		idx, ok := pool.bySig[sig]
		if !ok {
			idx = -1
		}
		s.mu.Lock()
		acc := idx >= 0 && s.accept[chi.ServerName][idx]
		s.attempts = append(s.attempts, vf29Attempt{Seq: len(s.attempts), Idx: idx, SNI: chi.ServerName, Accepted: acc})
		s.mu.Unlock()
		if !acc {
			s.mu.Lock()
			hole := s.stall[chi.ServerName]
			s.mu.Unlock()
			if hole {
				time.Sleep(vf29StallFor)
			}
			return nil, errors.New("vf29: fingerprint not accepted")
		}
		return nil, nil
	}
	ln, err := net.Listen("tcp", "127.0.0.1:0")
	if err != nil {
		vf29Inconclusive("cannot listen on loopback: " + err.Error())
	}
	s.ln, s.addr = ln, ln.Addr().String()
	go func() {
		for {
			c, err := ln.Accept()
			if err != nil {
				return
			}
			s.mu.Lock()
			s.tcp++
			s.conns = append(s.conns, c)
			s.mu.Unlock()
			s.wg.Add(1)
			go func() {
				defer s.wg.Done()
				defer c.Close()
				c.SetDeadline(time.Now().Add(vf29Wait))
				srv := Server(c, base)
				if srv.Handshake() != nil {
					return
				}
				// hold the connection until the client closes it
				buf := make([]byte, 16)
				for {
					if _, err := srv.Read(buf); err != nil {
						return
					}
				}
			}()
		}
	}()
	t.Cleanup(func() {
		ln.Close()
		s.mu.Lock()
		for _, c := range s.conns {
			c.Close()
		}
		s.mu.Unlock()
		done := make(chan struct{})
		go func() { s.wg.Wait(); close(done) }()
		select {
		case <-done:
		case <-time.After(vf29Wait):
		}
	})
	return s
}

func (s *vf29Server) newName(accepted map[int]bool) string {
	s.mu.Lock()
	defer s.mu.Unlock()
	s.nameCtr++
	name := fmt.Sprintf("d%d%s", s.nameCtr, vf29Domain)
	s.accept[name] = accepted
	return name
}

func (s *vf29Server) attemptsFor(name string) []vf29Attempt {
	s.mu.Lock()
	defer s.mu.Unlock()
	var out []vf29Attempt
	for _, a := range s.attempts {
		if a.SNI == name {
			out = append(out, a)
		}
	}
	return out
}

func (s *vf29Server) totals() (attempts, tcp int) {
	s.mu.Lock()
	defer s.mu.Unlock()
	return len(s.attempts), s.tcp
}

// ---- running a Dial --------------------------------------------------------------------------------------------

type vf29DialRes struct {
	conn *UConn
	err  error
}

func vf29Dial(r *Roller, addr, name string) vf29DialRes {
	ch := make(chan vf29DialRes, 1)
	go func() {
		c, err := r.Dial("tcp", addr, name)
		ch <- vf29DialRes{c, err}
	}()
	select {
	case res := <-ch:
		return res
	case <-time.After(vf29Wait):
		vf29Inconclusive("Roller.Dial did not return within " + vf29Wait.String())
	}
	return vf29DialRes{}
}

func vf29IsTimeout(err error) bool {
	var ne net.Error
	return errors.As(err, &ne) && ne.Timeout()
}

func vf29NewRoller(ids []ClientHelloID) *Roller {
	r, err := NewRoller()
	if err != nil {
		vf29Inconclusive("NewRoller: " + err.Error())
	}
	r.HelloIDs = ids
	r.TcpDialTimeout = 30 * time.Second
	r.TlsHandshakeTimeout = 30 * time.Second
	return r
}

func vf29Working(r *Roller) *ClientHelloID {
	r.HelloIDMu.Lock()
	defer r.HelloIDMu.Unlock()
	if r.WorkingHelloID == nil {
		return nil
	}
	v := *r.WorkingHelloID
	return &v
}

func (p *vf29Pool) indexOf(id ClientHelloID) int {
	for i, e := range p.ids {
		if e.ID == id {
			return i
		}
	}
	return -1
}

func (p *vf29Pool) names(idx []int) string {
	var n []string
	for _, i := range idx {
		if i < 0 {
			n = append(n, "?")
		} else {
			n = append(n, strings.TrimPrefix(p.ids[i].Name, "Hello"))
		}
	}
	return strings.Join(n, ",")
}

// vf29CheckDial compares one finished Dial with the model. cfg = configured pool indices (distinct); firstMust = the
// pool index the first attempt has to use (-1: unconstrained); firstAnyOf (concurrent case) = allowed first attempts
// when WorkingHelloID may have been any of several values (nil = not checked).
func vf29CheckDial(pool *vf29Pool, name string, cfg []int, accepted map[int]bool, working int, firstAnyOf map[int]bool, res vf29DialRes, atts []vf29Attempt) (problem string, outcome string) {
	var seq []int
	for _, a := range atts {
		seq = append(seq, a.Idx)
	}
	desc := fmt.Sprintf("configured=[%s] working=%s accepted=%v attempts=[%s] err=%v", pool.names(cfg), pool.names([]int{working}), vf29Keys(accepted), pool.names(seq), res.err)
	cand := map[int]bool{}
	for _, i := range cfg {
		cand[i] = true
	}
	if working >= 0 {
		cand[working] = true
	}
	for w := range firstAnyOf {
		cand[w] = true
	}
	seen := map[int]bool{}
	for k, a := range atts {
		if a.Idx < 0 {
			return "attempt with a fingerprint of none of the configured IDs; " + desc, ""
		}
		if !cand[a.Idx] {
			return fmt.Sprintf("attempt %d uses %s which is neither configured nor the working ID; %s", k, pool.ids[a.Idx].Name, desc), ""
		}
		if seen[a.Idx] {
			return fmt.Sprintf("%s attempted twice in one Dial; %s", pool.ids[a.Idx].Name, desc), ""
		}
		seen[a.Idx] = true
		if a.Accepted && k != len(atts)-1 {
			return fmt.Sprintf("attempt %d (%s) was accepted by the server but Dial went on; %s", k, pool.ids[a.Idx].Name, desc), ""
		}
	}
	if len(atts) > 0 {
		if firstAnyOf == nil && working >= 0 && atts[0].Idx != working {
			return fmt.Sprintf("first attempt used %s, WorkingHelloID was %s; %s", pool.ids[atts[0].Idx].Name, pool.ids[working].Name, desc), ""
		}
		if firstAnyOf != nil && len(firstAnyOf) > 0 && !firstAnyOf[-1] && !firstAnyOf[atts[0].Idx] {
			return fmt.Sprintf("first attempt used %s, WorkingHelloID was never that during the Dial; %s", pool.ids[atts[0].Idx].Name, desc), ""
		}
	}
	anyAccepted := false
	for i := range cand {
		if accepted[i] && (firstAnyOf == nil || i == working || vf29In(cfg, i)) {
			anyAccepted = true
		}
	}
	if res.err != nil {
		if res.conn != nil {
			return "Dial returned both a connection and an error; " + desc, ""
		}
		if vf29IsTimeout(res.err) {
			vf29Inconclusive("Dial failed with a timeout: " + res.err.Error())
		}
		if anyAccepted {
			return "Dial failed although the server accepts one of the configured fingerprints; " + desc, ""
		}
		for _, i := range cfg {
			if !seen[i] {
				return fmt.Sprintf("Dial gave up without trying %s; %s", pool.ids[i].Name, desc), ""
			}
		}
		return "", "all-rejected"
	}
	if res.conn == nil {
		return "Dial returned neither a connection nor an error; " + desc, ""
	}
	if len(atts) == 0 || !atts[len(atts)-1].Accepted {
		return "Dial returned a connection but the server accepted no attempt of it; " + desc, ""
	}
	last := atts[len(atts)-1].Idx
	if res.conn.ClientHelloID != pool.ids[last].ID {
		return fmt.Sprintf("returned connection carries ID %v, the accepted attempt was %s; %s", res.conn.ClientHelloID.Str(), pool.ids[last].Name, desc), ""
	}
	cs := res.conn.ConnectionState()
	if !cs.HandshakeComplete {
		return "returned connection has no completed handshake; " + desc, ""
	}
	if cs.ServerName != name || res.conn.HandshakeState.Hello.ServerName != name {
		return fmt.Sprintf("returned connection has SNI %q / %q, want %q; %s", cs.ServerName, res.conn.HandshakeState.Hello.ServerName, name, desc), ""
	}
	if len(atts) == 1 {
		return "", "first-try"
	}
	return "", "after-rejections"
}

func vf29In(l []int, v int) bool {
	for _, x := range l {
		if x == v {
			return true
		}
	}
	return false
}

func vf29Keys(m map[int]bool) []int {
	var k []int
	for i, v := range m {
		if v {
			k = append(k, i)
		}
	}
	sort.Ints(k)
	return k
}

func vf29DrawIDs(rt *rapid.T, pool *vf29Pool, label string) []int {
	n := rapid.IntRange(3, 6).Draw(rt, label+"_n")
	all := make([]int, len(pool.ids))
	for i := range all {
		all[i] = i
	}
	perm := rapid.Permutation(all).Draw(rt, label+"_perm")
	return append([]int(nil), perm[:n]...)
}

func vf29IDs(pool *vf29Pool, idx []int) []ClientHelloID {
	out := make([]ClientHelloID, len(idx))
	for i, x := range idx {
		out[i] = pool.ids[x].ID
	}
	return out
}

// vf29DrawAccepted draws the subset of fingerprints the server accepts for one Dial, from the configured IDs, the
// working ID and a few others.
func vf29DrawAccepted(rt *rapid.T, label string, cfg []int, working int) map[int]bool {
	acc := map[int]bool{}
	switch rapid.IntRange(0, 9).Draw(rt, label+"_mode") {
	case 0: // nothing
	case 1: // everything configured
		for _, i := range cfg {
			acc[i] = true
		}
	case 2, 3: // exactly one
		acc[cfg[rapid.IntRange(0, len(cfg)-1).Draw(rt, label+"_one")]] = true
	case 4: // only the working one (if any)
		if working >= 0 {
			acc[working] = true
		}
	case 5: // everything but the working one
		for _, i := range cfg {
			if i != working {
				acc[i] = true
			}
		}
	default:
		for _, i := range cfg {
			if rapid.Bool().Draw(rt, fmt.Sprintf("%s_%d", label, i)) {
				acc[i] = true
			}
		}
	}
	return acc
}

func vf29ClosedAddr() string {
	ln, err := net.Listen("tcp", "127.0.0.1:0")
	if err != nil {
		vf29Inconclusive("cannot listen on loopback: " + err.Error())
	}
	a := ln.Addr().String()
	ln.Close()
	return a
}

// vf29Sanity: one Dial with everything accepted must succeed, otherwise the environment (trust through SSL_CERT_FILE,
// loopback TCP, clock inside the certificate validity) is not usable and nothing can be concluded.
func vf29Sanity(s *vf29Server) {
	pool := s.pool
	if len(pool.ids) < 8 {
		vf29Inconclusive(fmt.Sprintf("only %d distinguishable parrots", len(pool.ids)))
	}
	all := map[int]bool{}
	for i := range pool.ids {
		all[i] = true
	}
	r := vf29NewRoller(vf29IDs(pool, []int{0, 1}))
	name := s.newName(all)
	res := vf29Dial(r, s.addr, name)
	if res.err != nil {
		vf29Inconclusive("sanity Dial with every fingerprint accepted failed (trust via SSL_CERT_FILE not effective, or clock outside the test certificate's validity?): " + res.err.Error())
	}
	res.conn.Close()
}

// ---- tests -----------------------------------------------------------------------------------------------------

// Every pool parrot is recognised by the server under the signature learnt locally (otherwise the oracle is blind).
func TestVerifC29Recognition(t *testing.T) {
	vf29TrustSetup()
	st := vfNewStats(t, "C29")
	s := vf29NewServer(t)
	vf29Sanity(s)
	pool := s.pool
	st.Extra("pool", pool.names(func() []int {
		o := make([]int, len(pool.ids))
		for i := range o {
			o[i] = i
		}
		return o
	}()))
	for i, p := range pool.ids {
		st.Eval()
		r := vf29NewRoller([]ClientHelloID{p.ID})
		name := s.newName(map[int]bool{i: true})
		res := vf29Dial(r, s.addr, name)
		atts := s.attemptsFor(name)
		msg, _ := vf29CheckDial(pool, name, []int{i}, map[int]bool{i: true}, -1, nil, res, atts)
		if msg != "" {
			st.Violation(t, "single-ID roller %s: %s", p.Name, msg)
		}
		if w := vf29Working(r); w == nil || *w != p.ID {
			st.Violation(t, "WorkingHelloID not recorded after a successful Dial with %s", p.Name)
		}
		res.conn.Close()
	}
	// closed port: the dial error comes back, no connection, no handshake anywhere
	st.Eval()
	r := vf29NewRoller(vf29IDs(pool, []int{0, 1, 2}))
	a0, t0 := s.totals()
	res := vf29Dial(r, vf29ClosedAddr(), s.newName(map[int]bool{0: true}))
	a1, t1 := s.totals()
	var oe *net.OpError
	if res.err == nil || res.conn != nil || !errors.As(res.err, &oe) || oe.Op != "dial" || a1 != a0 || t1 != t0 || vf29Working(r) != nil {
		st.Violation(t, "closed port: conn=%v err=%v attempts %d->%d tcp %d->%d working=%v", res.conn != nil, res.err, a0, a1, t0, t1, vf29Working(r))
	}
	st.NonTrivial("closed-port-directed")
}

func TestVerifC29Sequences(t *testing.T) {
	vf29TrustSetup()
	st := vfNewStats(t, "C29")
	s := vf29NewServer(t)
	vf29Sanity(s)
	pool := s.pool
	rapid.Check(t, func(rt *rapid.T) {
		cfg := vf29DrawIDs(rt, pool, "ids")
		r := vf29NewRoller(vf29IDs(pool, cfg))
		working := -1
		nd := rapid.IntRange(2, 6).Draw(rt, "dials")
		st.Eval()
		var trace []string
		var open []*UConn
		defer func() {
			for _, c := range open {
				c.Close()
			}
		}()
		for d := 0; d < nd; d++ {
			l := fmt.Sprintf("d%d", d)
			switch rapid.IntRange(0, 9).Draw(rt, l+"_pre") {
			case 0: // the application replaces the list (the working ID may no longer be in it)
				cfg = vf29DrawIDs(rt, pool, l+"_ids")
				r.HelloIDs = vf29IDs(pool, cfg)
				st.Class("list-replaced")
			case 1: // closed port
				a0, t0 := s.totals()
				res := vf29Dial(r, vf29ClosedAddr(), s.newName(map[int]bool{}))
				a1, t1 := s.totals()
				var oe *net.OpError
				if res.err == nil || res.conn != nil || !errors.As(res.err, &oe) || oe.Op != "dial" {
					st.Violation(rt, "closed port: Dial returned conn=%v err=%v", res.conn != nil, res.err)
				}
				if a1 != a0 || t1 != t0 {
					st.Violation(rt, "closed port: %d handshakes / %d TCP connections reached the real server", a1-a0, t1-t0)
				}
				if w := vf29Working(r); (w == nil) != (working < 0) || (w != nil && *w != pool.ids[working].ID) {
					st.Violation(rt, "closed port: WorkingHelloID changed")
				}
				st.Class("closed-port")
				trace = append(trace, "closed")
				continue
			}
			acc := vf29DrawAccepted(rt, l+"_acc", cfg, working)
			name := s.newName(acc)
			res := vf29Dial(r, s.addr, name)
			atts := s.attemptsFor(name)
			msg, outcome := vf29CheckDial(pool, name, cfg, acc, working, nil, res, atts)
			if msg != "" {
				st.Violation(rt, "Dial %d: %s", d, msg)
			}
			st.Class("dial:" + outcome)
			w := vf29Working(r)
			if res.err == nil {
				open = append(open, res.conn)
				last := atts[len(atts)-1].Idx
				if w == nil || *w != pool.ids[last].ID {
					st.Violation(rt, "Dial %d succeeded with %s but WorkingHelloID is %v", d, pool.ids[last].Name, w)
				}
				if working >= 0 && last != working {
					st.Class("working-id-replaced")
				}
				if working >= 0 && last == working {
					st.Class("working-id-reused")
				}
				working = last
			} else {
				// nothing is specified about WorkingHelloID after a failed Dial except that it is not invented
				if w != nil && (working < 0 || *w != pool.ids[working].ID) {
					st.Violation(rt, "Dial %d failed but WorkingHelloID changed to %v", d, w.Str())
				}
			}
			trace = append(trace, fmt.Sprintf("%s:%d", outcome, len(atts)))
			if outcome != "first-try" {
				st.NonTrivial(fmt.Sprintf("%v|%d|%v|%s|%d", cfg, working, vf29Keys(acc), outcome, len(atts)))
			}
		}
		st.Sample(map[string]any{"ids": pool.names(cfg), "trace": trace})
	})
}

func TestVerifC29Concurrent(t *testing.T) {
	vf29TrustSetup()
	st := vfNewStats(t, "C29")
	s := vf29NewServer(t)
	vf29Sanity(s)
	pool := s.pool
	rapid.Check(t, func(rt *rapid.T) {
		cfg := vf29DrawIDs(rt, pool, "ids")
		r := vf29NewRoller(vf29IDs(pool, cfg))
		st.Eval()
		working := -1
		if rapid.Bool().Draw(rt, "prime") { // establish a WorkingHelloID first
			i := cfg[rapid.IntRange(0, len(cfg)-1).Draw(rt, "prime_id")]
			name := s.newName(map[int]bool{i: true})
			res := vf29Dial(r, s.addr, name)
			if msg, _ := vf29CheckDial(pool, name, cfg, map[int]bool{i: true}, -1, nil, res, s.attemptsFor(name)); msg != "" {
				st.Violation(rt, "priming Dial: %s", msg)
			}
			res.conn.Close()
			working = i
		}
		n := rapid.IntRange(2, 8).Draw(rt, "callers")
		type job struct {
			name string
			acc  map[int]bool
			res  vf29DialRes
		}
		jobs := make([]*job, n)
		for k := range jobs {
			acc := vf29DrawAccepted(rt, fmt.Sprintf("c%d_acc", k), cfg, working)
			jobs[k] = &job{name: s.newName(acc), acc: acc}
		}
		start := make(chan struct{})
		var wg sync.WaitGroup
		for _, j := range jobs {
			wg.Add(1)
			go func(j *job) {
				defer wg.Done()
				<-start
				j.res = vf29Dial(r, s.addr, j.name)
			}(j)
		}
		close(start)
		done := make(chan struct{})
		go func() { wg.Wait(); close(done) }()
		select {
		case <-done:
		case <-time.After(2 * vf29Wait):
			vf29Inconclusive("concurrent Dials did not finish")
		}
		// values WorkingHelloID can have held during the batch: the initial one (or nil = -1) and every ID a Dial of
		// the batch succeeded with
		possible := map[int]bool{working: true}
		succeeded := map[int]bool{}
		for _, j := range jobs {
			if j.res.err == nil && j.res.conn != nil {
				if i := pool.indexOf(j.res.conn.ClientHelloID); i >= 0 {
					possible[i] = true
					succeeded[i] = true
				}
			}
		}
		nrej := 0
		for k, j := range jobs {
			atts := s.attemptsFor(j.name)
			// a job whose first read of WorkingHelloID saw another job's result may try that ID first even when it
			// is not in its own accepted set: covered by "possible"
			msg, outcome := vf29CheckDial(pool, j.name, cfg, j.acc, working, possible, j.res, atts)
			if msg != "" {
				st.Violation(rt, "concurrent Dial %d of %d: %s", k, n, msg)
			}
			st.Class("concurrent:" + outcome)
			if outcome != "first-try" {
				nrej++
			}
			if j.res.conn != nil {
				j.res.conn.Close()
			}
		}
		w := vf29Working(r)
		switch {
		case len(succeeded) == 0:
			if (w == nil) != (working < 0) || (w != nil && *w != pool.ids[working].ID) {
				st.Violation(rt, "no Dial succeeded but WorkingHelloID changed")
			}
		default:
			if w == nil || !succeeded[pool.indexOf(*w)] {
				st.Violation(rt, "WorkingHelloID after the batch is not the ID of any successful Dial")
			}
		}
		st.NonTrivial(fmt.Sprintf("conc|%v|%d|%d|%d", cfg, working, n, nrej))
		st.Sample(map[string]any{"ids": pool.names(cfg), "callers": n, "with_rejections": nrej, "primed": working >= 0})
	})
}

// A peer that blocks a fingerprint by never answering (black-holing): TlsHandshakeTimeout bounds EACH attempt, so the
// IDs tried after a stalled one still get their chance, and Dial returns the first connection whose handshake succeeds.
// Timing: a stalled attempt costs vf29StallTimeout; if the accepted fingerprint's ClientHello reached the server but the
// Dial still failed, the machine was too slow for the per-attempt timeout (no verdict).
func TestVerifC29StalledFingerprint(t *testing.T) {
	if sh := os.Getenv("VERIF_SHARD"); sh != "" && sh != "0" {
		t.Skip("timing-based directed test: runs in shard 0 only")
	}
	vf29TrustSetup()
	st := vfNewStats(t, "C29")
	s := vf29NewServer(t)
	vf29Sanity(s)
	pool := s.pool
	rounds := 3
	if vfThorough() {
		rounds = 8
	}
	for round := 0; round < rounds; round++ {
		// three distinct fixed fingerprints from the pool
		cfg := []int{(round * 3) % len(pool.ids), (round*3 + 1) % len(pool.ids), (round*3 + 2) % len(pool.ids)}
		r := vf29NewRoller(vf29IDs(pool, cfg))
		r.TlsHandshakeTimeout = vf29StallTimeout
		st.Eval()
		// 1. only the first ID is accepted: it becomes the working one
		n1 := s.newName(map[int]bool{cfg[0]: true})
		res := vf29Dial(r, s.addr, n1)
		if res.err != nil || res.conn == nil {
			st.Class("stall:priming-failed")
			continue
		}
		res.conn.Close()
		// 2. now that ID (and one more) is black-holed, the third is accepted
		n2 := s.newName(map[int]bool{cfg[2]: true})
		s.mu.Lock()
		s.stall[n2] = true
		s.mu.Unlock()
		res = vf29Dial(r, s.addr, n2)
		atts := s.attemptsFor(n2)
		reached := false
		for _, a := range atts {
			if a.Idx == cfg[2] {
				reached = true
			}
		}
		what := fmt.Sprintf("IDs %s, working %s black-holed together with %s, %s accepted; per-attempt timeout %v", pool.names(cfg), pool.ids[cfg[0]].Name, pool.ids[cfg[1]].Name, pool.ids[cfg[2]].Name, vf29StallTimeout)
		switch {
		case res.err == nil && res.conn != nil:
			res.conn.Close()
			st.Class("stall:reached-the-accepted-fingerprint")
			st.NonTrivial(fmt.Sprintf("stall|%v", cfg))
		case reached:
			st.Class("stall:accepted-hello-arrived-but-dial-failed(too slow, no verdict)")
		default:
			st.Violation(t, "%s: Dial failed (%v) and the accepted fingerprint's ClientHello never reached the server; attempts seen: %d", what, res.err, len(atts))
		}
		st.Sample(map[string]any{"ids": pool.names(cfg), "stalled_dial_error": fmt.Sprint(res.err), "attempts": len(atts)})
	}
}
