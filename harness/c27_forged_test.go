//go:build verif

package tls

// C27 - connections forged by MakeConnWithCompleteHandshake from shared secrets interoperate.
//
// Oracles (none of them reuses the record layer as its own judge beyond "the peer decodes what was sent"):
//   * forged client <-> forged server (the property as stated): scripted conversations in both directions,
//     stream read == stream written, close_notify arrives as io.EOF, nothing extra is delivered;
//   * forged <-> real: a real handshake (utls client, crypto/tls-derived server, TLS 1.1/1.2) is completed, its
//     master secret (from Config.KeyLogWriter) and randoms are handed to MakeConnWithCompleteHandshake and the
//     forged connection replaces one of the two real peers on a fresh pipe (differential oracle: catches
//     errors that are symmetric between the two forged roles);
//   * ids not in the supported table => nil for both roles.
//
// EnableWeakCiphers() replaces a package global; every use here is bracketed by vf27WithWeak, which restores
// the previous slice, and no test of this file calls t.Parallel.

import (
	"bytes"
	"errors"
	"fmt"
	"io"
	"strings"
	"sync"
	"testing"
	"time"

	"pgregory.net/rapid"
)

const vf27KnownCBC = "C27:cbc-suites-bad-record-mac"

type vf27SuiteInfo struct {
	kind      string // aead-gcm, aead-chacha, cbc-aes, cbc-3des, rc4
	tls12Only bool
}

// Own table (from the RFCs / IANA registry, not from cipher_suites.go flags).
var vf27Table = map[uint16]vf27SuiteInfo{
	0xcca8: {"aead-chacha", true}, 0xcca9: {"aead-chacha", true},
	0xc02f: {"aead-gcm", true}, 0xc02b: {"aead-gcm", true}, 0xc030: {"aead-gcm", true}, 0xc02c: {"aead-gcm", true},
	0xc027: {"cbc-aes", true}, 0xc013: {"cbc-aes", false}, 0xc023: {"cbc-aes", true}, 0xc009: {"cbc-aes", false},
	0xc014: {"cbc-aes", false}, 0xc00a: {"cbc-aes", false},
	0x009c: {"aead-gcm", true}, 0x009d: {"aead-gcm", true},
	0x003c: {"cbc-aes", true}, 0x002f: {"cbc-aes", false}, 0x0035: {"cbc-aes", false},
	0xc012: {"cbc-3des", false}, 0x000a: {"cbc-3des", false},
	0x0005: {"rc4", false}, 0xc011: {"rc4", false}, 0xc007: {"rc4", false},
	// utls additions
	0xcc13: {"aead-chacha", true}, 0xcc14: {"aead-chacha", true},
	// EnableWeakCiphers
	0x003d: {"cbc-aes", true}, 0xc024: {"cbc-aes", true}, 0xc028: {"cbc-aes", true},
}

var vf27BaseIDs = []uint16{0xcca8, 0xcca9, 0xc02f, 0xc02b, 0xc030, 0xc02c, 0xc027, 0xc013, 0xc023, 0xc009, 0xc014, 0xc00a,
	0x009c, 0x009d, 0x003c, 0x002f, 0x0035, 0xc012, 0x000a, 0x0005, 0xc011, 0xc007}
var vf27LegacyChaCha = []uint16{0xcc13, 0xcc14}
var vf27WeakIDs = []uint16{0x003d, 0xc024, 0xc028}

func vf27Info(cs *cipherSuite) (vf27SuiteInfo, bool) {
	if in, ok := vf27Table[cs.id]; ok {
		return in, true
	}
	// a suite the harness does not know (added to the library later): derive from the entry itself
	in := vf27SuiteInfo{tls12Only: cs.flags&suiteTLS12 != 0}
	switch {
	case cs.aead != nil && cs.ivLen == 4:
		in.kind = "aead-gcm"
	case cs.aead != nil:
		in.kind = "aead-chacha"
	case cs.ivLen == 0:
		in.kind = "rc4"
	case cs.ivLen == 8:
		in.kind = "cbc-3des"
	default:
		in.kind = "cbc-aes"
	}
	return in, false
}

func vf27IsCBC(kind string) bool { return strings.HasPrefix(kind, "cbc-") }

func vf27Versions(in vf27SuiteInfo) []uint16 {
	if in.tls12Only {
		return []uint16{VersionTLS12}
	}
	return []uint16{VersionTLS10, VersionTLS11, VersionTLS12}
}

var vf27Mu sync.Mutex

// vf27WithWeak runs f with EnableWeakCiphers() in force and restores the previous table afterwards.
func vf27WithWeak(weak bool, f func()) {
	vf27Mu.Lock()
	defer vf27Mu.Unlock()
	if !weak {
		f()
		return
	}
	saved := utlsSupportedCipherSuites
	defer func() { utlsSupportedCipherSuites = saved }()
	EnableWeakCiphers()
	f()
}

func vf27TableIDs() []uint16 {
	var ids []uint16
	for _, cs := range utlsSupportedCipherSuites {
		ids = append(ids, cs.id)
	}
	return ids
}

type vf27Step struct {
	C2S  bool
	Size int
}

func vf27StepsString(steps []vf27Step) string {
	var sb strings.Builder
	for _, s := range steps {
		if s.C2S {
			fmt.Fprintf(&sb, ">%d", s.Size)
		} else {
			fmt.Fprintf(&sb, "<%d", s.Size)
		}
	}
	return sb.String()
}

type vf27Failure struct {
	step   int // -1: close phase
	c2s    bool
	phase  string // write, read, mismatch, extra, close
	err    error
	detail string
}

func (f *vf27Failure) String() string {
	dir := "server->client"
	if f.c2s {
		dir = "client->server"
	}
	return fmt.Sprintf("step %d %s %s: err=%v %s", f.step, dir, f.phase, f.err, f.detail)
}

func (f *vf27Failure) isBadMAC() bool {
	return f.phase == "read" && f.err != nil && strings.Contains(f.err.Error(), "bad record MAC")
}

// vf27ReadN reads exactly n bytes through rd in chunks of at most bufSize.
func vf27ReadN(rd io.Reader, n, bufSize int) ([]byte, error) {
	if bufSize <= 0 {
		bufSize = 4096
	}
	out := make([]byte, 0, n)
	buf := make([]byte, bufSize)
	for len(out) < n {
		want := n - len(out)
		if want > bufSize {
			want = bufSize
		}
		m, err := rd.Read(buf[:want])
		out = append(out, buf[:m]...)
		if err != nil {
			return out, err
		}
	}
	return out, nil
}

// vf27Converse runs the scripted conversation over a buffered pipe; everything is sequential because the pipe
// never blocks a writer. Returns the first failure or nil.
func vf27Converse(cli, srv io.ReadWriter, cp, sp *vfConn, steps []vf27Step, data *vfDetRand, bufSize int, closeBoth bool) *vf27Failure {
	dl := time.Now().Add(vfIOTimeout)
	cp.SetDeadline(dl)
	sp.SetDeadline(dl)
	for i, s := range steps {
		w, r := srv, cli
		if s.C2S {
			w, r = cli, srv
		}
		msg := make([]byte, s.Size)
		data.Read(msg)
		n, err := w.Write(msg)
		if err != nil || n != len(msg) {
			return &vf27Failure{step: i, c2s: s.C2S, phase: "write", err: err, detail: fmt.Sprintf("n=%d of %d", n, len(msg))}
		}
		got, err := vf27ReadN(r, s.Size, bufSize)
		if err != nil {
			return &vf27Failure{step: i, c2s: s.C2S, phase: "read", err: err, detail: fmt.Sprintf("after %d of %d bytes", len(got), s.Size)}
		}
		if !bytes.Equal(got, msg) {
			return &vf27Failure{step: i, c2s: s.C2S, phase: "mismatch", detail: fmt.Sprintf("got %s want %s", vfHex(got), vfHex(msg))}
		}
	}
	if !closeBoth {
		return nil
	}
	// close_notify in both directions: each reader must see exactly EOF and no stray bytes
	type cw interface{ CloseWrite() error }
	for _, c2s := range []bool{true, false} {
		w, r := srv, cli
		if c2s {
			w, r = cli, srv
		}
		if err := w.(cw).CloseWrite(); err != nil {
			return &vf27Failure{step: -1, c2s: c2s, phase: "close", err: err}
		}
		buf := make([]byte, 16)
		n, err := r.Read(buf)
		if n != 0 {
			return &vf27Failure{step: -1, c2s: c2s, phase: "extra", err: err, detail: fmt.Sprintf("%d stray bytes %x", n, buf[:n])}
		}
		if err != io.EOF {
			return &vf27Failure{step: -1, c2s: c2s, phase: "read", err: err, detail: "want io.EOF after close_notify"}
		}
	}
	return nil
}

type vf27Secrets struct{ master, cr, sr []byte }

func vf27DetSecrets(seed uint64) vf27Secrets {
	r := vfNewDetRand(seed, "c27-secrets")
	s := vf27Secrets{make([]byte, 48), make([]byte, 32), make([]byte, 32)}
	r.Read(s.master)
	r.Read(s.cr)
	r.Read(s.sr)
	return s
}

// vf27ForgedPair returns (client, server, pipes) or reports nil-ness.
func vf27ForgedPair(vers, id uint16, sec vf27Secrets) (cli, srv *Conn, cp, sp *vfConn) {
	cp, sp = vfPipe()
	cli = MakeConnWithCompleteHandshake(cp, vers, id, sec.master, sec.cr, sec.sr, true)
	srv = MakeConnWithCompleteHandshake(sp, vers, id, sec.master, sec.cr, sec.sr, false)
	return
}

// vf27Judge turns the outcome of one supported (suite, version) conversation into a verdict.
func vf27Judge(st *vfStats, t vfFataler, what string, kind string, f *vf27Failure) {
	if f == nil {
		st.Class("delivered")
		return
	}
	if vf27IsCBC(kind) && f.isBadMAC() {
		st.Class("known:cbc-bad-record-mac")
		st.KnownOrViolation(t, vf27KnownCBC, "%s: %s", what, f)
		return
	}
	st.Violation(t, "%s: %s", what, f)
}

var vf27Scripts = [][]vf27Step{
	{{true, 13}, {false, 14}},
	{{false, 1}, {true, 0}, {true, 1}, {false, 15}, {true, 16}, {false, 17}, {true, 255}, {false, 256}},
	{{true, 1<<14 - 1}, {false, 1 << 14}, {true, 1<<14 + 1}, {false, 1 << 15}, {true, 40000}, {false, 3}},
}

// TestVerifC27Exhaustive sweeps every supported suite x every valid version x fixed scripts, in the default state and
// after EnableWeakCiphers.
func TestVerifC27Exhaustive(t *testing.T) {
	st := vfNewStats(t, "C27")
	for _, weak := range []bool{false, true} {
		vf27WithWeak(weak, func() {
			ids := vf27TableIDs()
			have := map[uint16]bool{}
			for _, id := range ids {
				have[id] = true
			}
			want := append([]uint16(nil), vf27BaseIDs...)
			if weak {
				want = append(want, vf27WeakIDs...)
			} else {
				want = append(want, vf27LegacyChaCha...)
			}
			for _, id := range want {
				if !have[id] {
					st.Violation(t, "weak=%v: suite %#04x is missing from the supported table", weak, id)
				}
			}
			if weak {
				for _, id := range vf27LegacyChaCha {
					if !have[id] {
						// observation, not a verdict: EnableWeakCiphers rebuilds the table from cipherSuites and
						// thereby drops the legacy ChaCha20 code points.
						st.Class("observation:weak-drops-legacy-chacha")
					}
				}
			}
			// every one of the 2^16 ids that is not in the table must give nil for both roles
			nilSec := vf27DetSecrets(7)
			for x := 0; x < 1<<16; x++ {
				id := uint16(x)
				if have[id] {
					continue
				}
				for _, vers := range []uint16{VersionTLS12} {
					st.Eval()
					cli := MakeConnWithCompleteHandshake(nil, vers, id, nilSec.master, nilSec.cr, nilSec.sr, true)
					srv := MakeConnWithCompleteHandshake(nil, vers, id, nilSec.master, nilSec.cr, nilSec.sr, false)
					if cli != nil || srv != nil {
						st.Violation(t, "weak=%v unsupported id %#04x vers %#04x: want nil, got client=%v server=%v", weak, id, vers, cli != nil, srv != nil)
					}
				}
			}
			st.Class("unsupported-id-exhaustive")
			for _, cs := range append([]*cipherSuite(nil), utlsSupportedCipherSuites...) {
				in, known := vf27Info(cs)
				if !known {
					st.Class("suite-unknown-to-harness")
				}
				for _, vers := range vf27Versions(in) {
					for si, script := range vf27Scripts {
						for _, bufSize := range []int{1 << 15, 7} {
							if bufSize == 7 && si == 2 {
								continue
							}
							st.Eval()
							what := fmt.Sprintf("weak=%v suite=%#04x(%s) vers=%#04x script=%s buf=%d", weak, cs.id, in.kind, vers, vf27StepsString(script), bufSize)
							st.Class(fmt.Sprintf("%s/%#04x", in.kind, vers))
							st.NonTrivial(fmt.Sprintf("x|%v|%04x|%04x|%d|%d", weak, cs.id, vers, si, bufSize))
							sec := vf27DetSecrets(uint64(cs.id)<<16 | uint64(vers))
							cli, srv, cp, sp := vf27ForgedPair(vers, cs.id, sec)
							if cli == nil || srv == nil {
								st.Violation(t, "%s: supported suite but MakeConnWithCompleteHandshake returned nil (client nil=%v server nil=%v)", what, cli == nil, srv == nil)
							}
							f := vf27Converse(cli, srv, cp, sp, script, vfNewDetRand(uint64(si), "c27-data"), bufSize, true)
							cp.Close()
							sp.Close()
							vf27Judge(st, t, what, in.kind, f)
						}
					}
				}
			}
		})
	}
}

// TestVerifC27KnownCBCDirected is the minimal deterministic reproduction of the known class: it shows each
// direction failing on its own fresh pair.
func TestVerifC27KnownCBCDirected(t *testing.T) {
	st := vfNewStats(t, "C27")
	for _, c2s := range []bool{true, false} {
		st.Eval()
		sec := vf27DetSecrets(42)
		cli, srv, cp, sp := vf27ForgedPair(VersionTLS12, TLS_RSA_WITH_AES_128_CBC_SHA, sec)
		if cli == nil || srv == nil {
			st.Violation(t, "nil connection for TLS_RSA_WITH_AES_128_CBC_SHA")
		}
		f := vf27Converse(cli, srv, cp, sp, []vf27Step{{c2s, 13}}, vfNewDetRand(1, "c27-data"), 64, false)
		cp.Close()
		sp.Close()
		st.NonTrivial(fmt.Sprintf("directed|%v", c2s))
		vf27Judge(st, t, fmt.Sprintf("directed TLS_RSA_WITH_AES_128_CBC_SHA/TLS1.2 one 13-byte message c2s=%v", c2s), "cbc-aes", f)
	}
}

var vf27Sizes = []int{0, 1, 2, 15, 16, 17, 31, 32, 33, 255, 256, 1<<14 - 1, 1 << 14, 1<<14 + 1, 1 << 15, 123673, 123674, 140000, 300000}

func vf27GenSteps(rt *rapid.T) []vf27Step {
	n := rapid.IntRange(1, 6).Draw(rt, "nsteps")
	steps := make([]vf27Step, n)
	for i := range steps {
		steps[i].C2S = rapid.Bool().Draw(rt, "c2s")
		if rapid.IntRange(0, 3).Draw(rt, "sizekind") == 0 {
			steps[i].Size = rapid.IntRange(0, 40000).Draw(rt, "size")
		} else {
			steps[i].Size = vf27Sizes[rapid.IntRange(0, len(vf27Sizes)-1).Draw(rt, "sizeidx")]
		}
	}
	return steps
}

// TestVerifC27Random: random secrets, scripts, read-buffer sizes over supported suites; arbitrary ids => nil.
func TestVerifC27Random(t *testing.T) {
	st := vfNewStats(t, "C27")
	rapid.Check(t, func(rt *rapid.T) {
		weak := rapid.Bool().Draw(rt, "weak")
		vf27WithWeak(weak, func() {
			ids := vf27TableIDs()
			have := map[uint16]bool{}
			for _, id := range ids {
				have[id] = true
			}
			var id uint16
			switch rapid.IntRange(0, 9).Draw(rt, "idkind") {
			case 0, 1:
				id = rapid.Uint16().Draw(rt, "id")
			case 2:
				// near misses and TLS 1.3 / fake ids
				near := []uint16{TLS_AES_128_GCM_SHA256, TLS_AES_256_GCM_SHA384, TLS_CHACHA20_POLY1305_SHA256, 0xcc15, 0x009e, 0x0033,
					0x0039, 0x0004, 0x009f, 0x00ff, 0xc008, 0x5600, 0x0a0a, 0x0000, 0xffff, 0xcc13, 0xcc14, 0x003d, 0xc024, 0xc028}
				id = near[rapid.IntRange(0, len(near)-1).Draw(rt, "near")]
			case 3:
				id = ids[rapid.IntRange(0, len(ids)-1).Draw(rt, "sup")] ^ (1 << uint(rapid.IntRange(0, 15).Draw(rt, "bit")))
			default:
				id = ids[rapid.IntRange(0, len(ids)-1).Draw(rt, "sup")]
			}
			sec := vf27Secrets{
				master: rapid.SliceOfN(rapid.Byte(), 48, 48).Draw(rt, "master"),
				cr:     rapid.SliceOfN(rapid.Byte(), 32, 32).Draw(rt, "cr"),
				sr:     rapid.SliceOfN(rapid.Byte(), 32, 32).Draw(rt, "sr"),
			}
			st.Eval()
			if !have[id] {
				vers := []uint16{VersionTLS10, VersionTLS11, VersionTLS12, VersionTLS13, VersionSSL30}[rapid.IntRange(0, 4).Draw(rt, "uvers")]
				st.Class("unsupported-id")
				st.NonTrivial(fmt.Sprintf("u|%v|%04x|%04x", weak, id, vers))
				var cli, srv *Conn
				if p := vfCatch(func() { cli, srv, _, _ = vf27ForgedPair(vers, id, sec) }); p != nil {
					st.Violation(rt, "weak=%v unsupported id %#04x vers %#04x: %s", weak, id, vers, p)
				}
				if cli != nil || srv != nil {
					st.Violation(rt, "weak=%v unsupported id %#04x vers %#04x: want nil, got client=%v server=%v", weak, id, vers, cli != nil, srv != nil)
				}
				return
			}
			cs := cipherSuiteByID(id)
			if cs == nil {
				st.Violation(rt, "id %#04x is in the supported table but cipherSuiteByID returns nil", id)
			}
			in, _ := vf27Info(cs)
			vs := vf27Versions(in)
			vers := vs[rapid.IntRange(0, len(vs)-1).Draw(rt, "vers")]
			steps := vf27GenSteps(rt)
			bufSize := []int{1, 5, 16, 1000, 1 << 14, 1<<14 + 1, 1 << 16}[rapid.IntRange(0, 6).Draw(rt, "buf")]
			dseed := rapid.Uint64().Draw(rt, "dataseed")
			closeBoth := rapid.Bool().Draw(rt, "close")
			what := fmt.Sprintf("weak=%v suite=%#04x(%s) vers=%#04x script=%s buf=%d", weak, id, in.kind, vers, vf27StepsString(steps), bufSize)
			st.Class(fmt.Sprintf("%s/%#04x", in.kind, vers))
			st.NonTrivial(fmt.Sprintf("r|%v|%04x|%04x|%s|%d|%s", weak, id, vers, vf27StepsString(steps), bufSize, vfHashHex(sec.master)))
			st.Sample(map[string]any{"weak": weak, "suite": fmt.Sprintf("%#04x", id), "kind": in.kind, "version": fmt.Sprintf("%#04x", vers),
				"script": vf27StepsString(steps), "read_buf": bufSize})
			cli, srv, cp, sp := vf27ForgedPair(vers, id, sec)
			if cli == nil || srv == nil {
				st.Violation(rt, "%s: supported suite but nil connection (client nil=%v server nil=%v)", what, cli == nil, srv == nil)
			}
			f := vf27Converse(cli, srv, cp, sp, steps, vfNewDetRand(dseed, "c27-data"), bufSize, closeBoth)
			cp.Close()
			sp.Close()
			vf27Judge(st, rt, what, in.kind, f)
		})
	})
}

// ---- forged <-> real ----

type vf27KeyLog struct {
	mu    sync.Mutex
	lines []string
}

func (k *vf27KeyLog) Write(p []byte) (int, error) {
	k.mu.Lock()
	k.lines = append(k.lines, string(p))
	k.mu.Unlock()
	return len(p), nil
}

func vf27ParseKeyLog(k *vf27KeyLog) (cr, master []byte, err error) {
	k.mu.Lock()
	defer k.mu.Unlock()
	for _, l := range k.lines {
		f := strings.Fields(l)
		if len(f) == 3 && f[0] == "CLIENT_RANDOM" {
			var a, b []byte
			if _, err := fmt.Sscanf(f[1], "%x", &a); err != nil {
				return nil, nil, err
			}
			if _, err := fmt.Sscanf(f[2], "%x", &b); err != nil {
				return nil, nil, err
			}
			return a, b, nil
		}
	}
	return nil, nil, errors.New("no CLIENT_RANDOM line in key log")
}

// suites tls.Server can negotiate at TLS <= 1.2 together with the key type its certificate needs
func vf27ServerKeyType(id uint16) string {
	switch id {
	case 0xcca9, 0xc02b, 0xc02c, 0xc023, 0xc009, 0xc00a, 0xc007, 0xcc14, 0xc024:
		return "ecdsa"
	}
	return "rsa"
}

func vf27CustomSpec(id uint16, minV, maxV uint16) *ClientHelloSpec {
	return &ClientHelloSpec{
		TLSVersMin: minV, TLSVersMax: maxV,
		CipherSuites:       []uint16{id},
		CompressionMethods: []uint8{0},
		Extensions: []TLSExtension{
			&SNIExtension{},
			&SupportedCurvesExtension{Curves: []CurveID{X25519, CurveP256}},
			&SupportedPointsExtension{SupportedPoints: []uint8{0}},
			&SignatureAlgorithmsExtension{SupportedSignatureAlgorithms: []SignatureScheme{ECDSAWithP256AndSHA256, PSSWithSHA256, PKCS1WithSHA256, PKCS1WithSHA1, ECDSAWithSHA1}},
			&RenegotiationInfoExtension{Renegotiation: RenegotiateOnceAsClient},
			&ExtendedMasterSecretExtension{},
		},
	}
}

// vf27RealHandshake completes a real handshake for (suite, version) and returns the pair plus secrets.
func vf27RealHandshake(id, vers uint16, seed uint64) (*vfPair, vf27Secrets, error) {
	kl := &vf27KeyLog{}
	scfg := vfServerConfig(vf27ServerKeyType(id), "example.test")
	scfg.CipherSuites = []uint16{id}
	scfg.MinVersion, scfg.MaxVersion = vers, vers
	scfg.KeyLogWriter = kl
	scfg.SessionTicketsDisabled = true
	scfg.Rand = vfNewDetRand(seed, "c27-real-server")
	ccfg := vfClientConfig("example.test")
	ccfg.MinVersion, ccfg.MaxVersion = vers, vers
	ccfg.Rand = vfNewDetRand(seed, "c27-real-client")
	p := vfNewPair(ccfg, HelloCustom, scfg)
	if err := p.Cli.ApplyPreset(vf27CustomSpec(id, vers, vers)); err != nil {
		return nil, vf27Secrets{}, fmt.Errorf("ApplyPreset: %w", err)
	}
	if cerr, serr := p.Handshake(); cerr != nil || serr != nil {
		p.Close()
		return nil, vf27Secrets{}, fmt.Errorf("real handshake failed: client=%v server=%v", cerr, serr)
	}
	cr, master, err := vf27ParseKeyLog(kl)
	if err != nil {
		p.Close()
		return nil, vf27Secrets{}, err
	}
	sec := vf27Secrets{master: master, cr: cr, sr: append([]byte(nil), p.Cli.HandshakeState.ServerHello.Random...)}
	if !bytes.Equal(cr, p.Cli.HandshakeState.Hello.Random) {
		p.Close()
		return nil, vf27Secrets{}, errors.New("key log client random differs from the client's hello random")
	}
	return p, sec, nil
}

// TestVerifC27RealPeer: the forged connection must be able to stand in for either peer of a real session.
// Domain: AEAD suites at TLS 1.2 and CBC suites at TLS 1.1/1.2 that tls.Server negotiates. (RC4 and TLS 1.0 CBC
// carry cipher state across the Finished messages that the API has no way to receive, so they cannot interoperate
// with a real peer by construction and are not demanded.)
func TestVerifC27RealPeer(t *testing.T) {
	st := vfNewStats(t, "C27")
	type tc struct{ id, vers uint16 }
	var cases []tc
	for _, id := range append(append([]uint16(nil), vf27BaseIDs...), vf27LegacyChaCha...) {
		in := vf27Table[id]
		if in.kind == "rc4" {
			continue
		}
		if id == 0xcc13 || id == 0xcc14 {
			continue // tls.Server never selects the legacy code points
		}
		for _, v := range vf27Versions(in) {
			if v == VersionTLS10 {
				continue
			}
			cases = append(cases, tc{id, v})
		}
	}
	rapid.Check(t, func(rt *rapid.T) {
		c := cases[rapid.IntRange(0, len(cases)-1).Draw(rt, "case")]
		forgeClient := rapid.Bool().Draw(rt, "forgeClient")
		steps := vf27GenSteps(rt)
		for i := range steps {
			if steps[i].Size > 20000 {
				steps[i].Size %= 20000
			}
		}
		bufSize := []int{1, 16, 1000, 1 << 15}[rapid.IntRange(0, 3).Draw(rt, "buf")]
		seed := rapid.Uint64().Draw(rt, "seed")
		in := vf27Table[c.id]
		st.Eval()
		what := fmt.Sprintf("real-peer suite=%#04x(%s) vers=%#04x forgedRole=%s script=%s", c.id, in.kind, c.vers,
			map[bool]string{true: "client", false: "server"}[forgeClient], vf27StepsString(steps))
		p, sec, err := vf27RealHandshake(c.id, c.vers, seed)
		if err != nil {
			// the real handshake is not what C27 is about; a failure here would make the case meaningless
			st.Violation(rt, "%s: setup: %v", what, err)
		}
		defer p.Close()
		if p.Cli.ConnectionState().CipherSuite != c.id || p.Cli.ConnectionState().Version != c.vers {
			st.Violation(rt, "%s: setup negotiated %#04x/%#04x", what, p.Cli.ConnectionState().CipherSuite, p.Cli.ConnectionState().Version)
		}
		st.Class(fmt.Sprintf("real/%s/%#04x/forged-%v", in.kind, c.vers, map[bool]string{true: "client", false: "server"}[forgeClient]))
		st.NonTrivial(fmt.Sprintf("p|%04x|%04x|%v|%s|%d", c.id, c.vers, forgeClient, vf27StepsString(steps), seed))
		cp, sp := vfPipe()
		defer cp.Close()
		defer sp.Close()
		var cli, srv io.ReadWriter
		if forgeClient {
			f := MakeConnWithCompleteHandshake(cp, c.vers, c.id, sec.master, sec.cr, sec.sr, true)
			if f == nil {
				st.Violation(rt, "%s: nil forged connection", what)
			}
			p.Srv.conn = sp
			cli, srv = f, p.Srv
		} else {
			f := MakeConnWithCompleteHandshake(sp, c.vers, c.id, sec.master, sec.cr, sec.sr, false)
			if f == nil {
				st.Violation(rt, "%s: nil forged connection", what)
			}
			p.Cli.SetUnderlyingConn(cp)
			cli, srv = p.Cli, f
		}
		f := vf27Converse(cli, srv, cp, sp, steps, vfNewDetRand(seed, "c27-data"), bufSize, false)
		if f != nil && forgeClient {
			vf27Judge(st, rt, what, in.kind, f)
			return
		}
		// the forged *server* role happens to get the right CBC directions, so no known class applies there
		if f != nil {
			st.Violation(rt, "%s: %s", what, f)
		}
		st.Class("delivered")
	})
}
