//go:build verif

package tls

// C25 - application data arrives intact and tampering is detected.
//
// A session is a real handshake (utls client: custom single-suite spec / HelloGolang / a parrot offering the suite;
// server: tls.Server forced to one suite and version) followed by a drawn script of writes and TLS 1.3 key updates
// from either side, executed in lock-step over the buffered pipe (the writer never blocks, the reader is asked
// for exactly the bytes that are already in flight, so the run is deterministic and never waits).
//
// A man in the middle (vfConn.filter) may tamper with the k-th record of one direction after the handshake:
// XOR one byte of the body, XOR one byte of the 5-byte header, or cut the record short; it closes that direction
// once the write operation containing the tampered record is complete (so a reader can never block on missing bytes).
//
// Oracles: stream read == stream written (no fault); with a fault the reader must return a non-nil error that is not
// a clean io.EOF, the bytes delivered before it must be a prefix of what was sent and must not reach into the
// tampered record (bound computed from the record sizes seen on the wire and an overhead table written from the
// RFCs), and the error must be sticky.
//
// Suites tls.Server never selects by itself (legacy ChaCha20 code points, the three CBC suites behind
// EnableWeakCiphers) are reached by temporarily appending their ids to the *server's* preference tables
// (package globals cipherSuitesPreferenceOrder{,NoAES}) inside a save/restore bracket; the client code paths are
// untouched. EnableWeakCiphers() itself is called inside the same bracket and undone afterwards. No test here is
// parallel.

import (
	"bytes"
	"errors"
	"fmt"
	"io"
	"net"
	"strings"
	"sync"
	"testing"
	"time"

	"pgregory.net/rapid"
)

type vf25Suite struct {
	id      uint16
	kind    string // aead-gcm, aead-chacha, cbc-aes, cbc-3des, rc4
	mac     int    // MAC bytes for non-AEAD
	t12only bool
	t13     bool
	keyType string // rsa / ecdsa leaf needed by the server
	trick   bool   // server must be talked into selecting it
	weak    bool   // needs EnableWeakCiphers
}

var vf25Suites = []vf25Suite{
	{0xcca8, "aead-chacha", 0, true, false, "rsa", false, false},
	{0xcca9, "aead-chacha", 0, true, false, "ecdsa", false, false},
	{0xc02f, "aead-gcm", 0, true, false, "rsa", false, false},
	{0xc02b, "aead-gcm", 0, true, false, "ecdsa", false, false},
	{0xc030, "aead-gcm", 0, true, false, "rsa", false, false},
	{0xc02c, "aead-gcm", 0, true, false, "ecdsa", false, false},
	{0xc027, "cbc-aes", 32, true, false, "rsa", false, false},
	{0xc013, "cbc-aes", 20, false, false, "rsa", false, false},
	{0xc023, "cbc-aes", 32, true, false, "ecdsa", false, false},
	{0xc009, "cbc-aes", 20, false, false, "ecdsa", false, false},
	{0xc014, "cbc-aes", 20, false, false, "rsa", false, false},
	{0xc00a, "cbc-aes", 20, false, false, "ecdsa", false, false},
	{0x009c, "aead-gcm", 0, true, false, "rsa", false, false},
	{0x009d, "aead-gcm", 0, true, false, "rsa", false, false},
	{0x003c, "cbc-aes", 32, true, false, "rsa", false, false},
	{0x002f, "cbc-aes", 20, false, false, "rsa", false, false},
	{0x0035, "cbc-aes", 20, false, false, "rsa", false, false},
	{0xc012, "cbc-3des", 20, false, false, "rsa", false, false},
	{0x000a, "cbc-3des", 20, false, false, "rsa", false, false},
	{0x0005, "rc4", 20, false, false, "rsa", false, false},
	{0xc011, "rc4", 20, false, false, "rsa", false, false},
	{0xc007, "rc4", 20, false, false, "ecdsa", false, false},
	{0x1301, "aead-gcm", 0, false, true, "ecdsa", false, false},
	{0x1302, "aead-gcm", 0, false, true, "ecdsa", false, false},
	{0x1303, "aead-chacha", 0, false, true, "ecdsa", false, false},
	{0xcc13, "aead-chacha", 0, true, false, "rsa", true, false},
	{0xcc14, "aead-chacha", 0, true, false, "ecdsa", true, false},
	{0x003d, "cbc-aes", 32, true, false, "rsa", true, true},
	{0xc024, "cbc-aes", 48, true, false, "ecdsa", true, true},
	{0xc028, "cbc-aes", 48, true, false, "rsa", true, true},
}

func (s vf25Suite) versions() []uint16 {
	switch {
	case s.t13:
		return []uint16{VersionTLS13}
	case s.t12only:
		return []uint16{VersionTLS12}
	}
	return []uint16{VersionTLS10, VersionTLS11, VersionTLS12}
}

// vf25MinOverhead: body length minus this is an upper bound of the payload of a record (exact for AEAD and RC4,
// within one cipher block for CBC).
func vf25MinOverhead(s vf25Suite, vers uint16) int {
	switch s.kind {
	case "aead-gcm":
		if vers == VersionTLS13 {
			return 17
		}
		return 24
	case "aead-chacha":
		if vers == VersionTLS13 {
			return 17
		}
		return 16
	case "rc4":
		return s.mac
	}
	block := 16
	if s.kind == "cbc-3des" {
		block = 8
	}
	iv := 0
	if vers >= VersionTLS11 {
		iv = block
	}
	return iv + s.mac + 1
}

var vf25Mu sync.Mutex

// vf25Bracket makes tls.Server able to select the given extra ids (and enables the weak suites when asked) for the
// duration of f only.
func vf25Bracket(s vf25Suite, f func()) {
	vf25Mu.Lock()
	defer vf25Mu.Unlock()
	if !s.trick {
		f()
		return
	}
	savedSup, savedPref, savedNoAES := utlsSupportedCipherSuites, cipherSuitesPreferenceOrder, cipherSuitesPreferenceOrderNoAES
	defer func() {
		utlsSupportedCipherSuites, cipherSuitesPreferenceOrder, cipherSuitesPreferenceOrderNoAES = savedSup, savedPref, savedNoAES
	}()
	if s.weak {
		EnableWeakCiphers()
	}
	cipherSuitesPreferenceOrder = append(append([]uint16(nil), savedPref...), s.id)
	cipherSuitesPreferenceOrderNoAES = append(append([]uint16(nil), savedNoAES...), s.id)
	f()
}

func vf25Spec(s vf25Suite, vers uint16) *ClientHelloSpec {
	exts := []TLSExtension{
		&SNIExtension{},
		&SupportedCurvesExtension{Curves: []CurveID{X25519, CurveP256}},
		&SupportedPointsExtension{SupportedPoints: []uint8{0}},
		&SignatureAlgorithmsExtension{SupportedSignatureAlgorithms: []SignatureScheme{ECDSAWithP256AndSHA256, PSSWithSHA256, PKCS1WithSHA256, PKCS1WithSHA1, ECDSAWithSHA1}},
		&RenegotiationInfoExtension{Renegotiation: RenegotiateOnceAsClient},
		&ExtendedMasterSecretExtension{},
	}
	min := vers
	if vers == VersionTLS13 {
		min = VersionTLS12
		exts = append(exts,
			&KeyShareExtension{KeyShares: []KeyShare{{Group: X25519}}},
			&PSKKeyExchangeModesExtension{Modes: []uint8{PskModeDHE}},
			&SupportedVersionsExtension{Versions: []uint16{VersionTLS13}},
		)
	}
	return &ClientHelloSpec{TLSVersMin: min, TLSVersMax: vers, CipherSuites: []uint16{s.id}, CompressionMethods: []uint8{0}, Extensions: exts}
}

type vf25Op struct {
	Client    bool // acting side
	KeyUpdate bool
	Request   bool
	Size      int
	// TimeoutRead: the reader of this direction runs into an expired read deadline and then goes on reading with a new
	// deadline (a read timeout is a temporary net.Error, the stream must survive it): 1 = while the connection is idle,
	// before the write of this op; 2 = after TimeoutCut bytes of the first record of this op's write have arrived
	TimeoutRead int
	TimeoutCut  int
	// Ticket > 0 (with KeyUpdate set, server side, TLS 1.3): instead of a KeyUpdate the server sends a NewSessionTicket
	// in this variant: 1 no extensions, 2 an unknown extension with a body, 3 early_data plus an empty unknown one,
	// 4 a GREASE extension with a body (RFC 8446 4.6.1: clients MUST ignore unrecognised extensions)
	Ticket int
}

type vf25Fault struct {
	Kind   string // none, flip-body, flip-header, truncate
	C2S    bool
	K      int    // record index in that direction after the handshake
	PosSel int    // 0 first, 1 last, 2 middle, 3 PosRnd
	PosRnd uint32 // reduced modulo the relevant length
	Mask   byte   // XOR mask (non-zero)
}

type vf25Case struct {
	Suite      vf25Suite
	Vers       uint16
	ClientKind string
	Parrot     ClientHelloID
	Tickets    bool
	// CliSess: the client's own session settings - "" | "cache" | "tickets-disabled" | "cache+tickets-disabled"
	// (all legal; a server that sends NewSessionTicket after the handshake must not disturb the byte stream)
	CliSess   string
	NoDynamic bool
	Seed      uint64
	Ops       []vf25Op
	Bufs      []int
	Fault     vf25Fault
	// LateTail > 0 (only without a fault): before its close_notify each side writes a last message of this many bytes
	// that the peer starts reading only AFTER the close_notify was written too, so that data and alert arrive in the
	// same transport read (a clean close over TCP)
	LateTail int
}

func (c *vf25Case) opsString() string {
	var sb strings.Builder
	for _, op := range c.Ops {
		side := "S"
		if op.Client {
			side = "C"
		}
		if op.KeyUpdate && op.Ticket > 0 && !op.Client {
			fmt.Fprintf(&sb, "S:NST(variant %d) ", op.Ticket)
		} else if op.KeyUpdate {
			fmt.Fprintf(&sb, "%s:KU(%v) ", side, op.Request)
		} else if op.TimeoutRead != 0 {
			fmt.Fprintf(&sb, "%s:%d(read-timeout:%d/%d) ", side, op.Size, op.TimeoutRead, op.TimeoutCut)
		} else {
			fmt.Fprintf(&sb, "%s:%d ", side, op.Size)
		}
	}
	return strings.TrimSpace(sb.String())
}

func (c *vf25Case) describe() map[string]any {
	return map[string]any{"suite": fmt.Sprintf("%#04x", c.Suite.id), "kind": c.Suite.kind, "version": fmt.Sprintf("%#04x", c.Vers),
		"client": c.ClientKind, "tickets": c.Tickets, "client_session_settings": c.CliSess, "no_dynamic_sizing": c.NoDynamic, "seed": c.Seed, "ops": c.opsString(),
		"read_bufs": c.Bufs, "late_tail": c.LateTail, "fault": fmt.Sprintf("%+v", c.Fault)}
}

type vf25RecLog struct {
	idx     int
	tag     int // index of the write op in progress in this direction, -1 otherwise
	bodyLen int
	typ     byte
}

type vf25Dir struct {
	name        string
	w, r        io.ReadWriter
	wc          *Conn // writer's Conn (for key updates / close_notify)
	wp          *vfConn
	rp          *vfConn // the reader's end of the transport
	sent, recvd []byte
	recs        []vf25RecLog
	curTag      int
	opStartSent int
	fault       *vf25Fault // nil when this direction is not tampered with
	hit         bool
	hitRec      vf25RecLog
	hitDetail   string
	closed      bool
	bufIdx      int
	// from the tampered record on: the records as written and the byte stream as actually delivered
	origAfter   [][]byte
	wireAfter   []byte
	intactAfter int
}

func vf25Ticket(c *Conn, variant int, seed uint64) error {
	c.out.Lock()
	defer c.out.Unlock()
	body := []byte{0, 0, 0x0e, 0x10, byte(seed >> 24), byte(seed >> 16), byte(seed >> 8), byte(seed), 1, byte(variant)}
	label := make([]byte, 24)
	vfNewDetRand(seed, "c25-nst-label").Read(label)
	body = append(body, 0, byte(len(label)))
	body = append(body, label...)
	var exts []byte
	switch variant {
	case 2:
		exts = []byte{0xfa, 0x01, 0, 1, 0x42}
	case 3:
		exts = []byte{0, 42, 0, 4, 0, 0, 0, 0, 0xfa, 0x02, 0, 0}
	case 4:
		exts = []byte{0x1a, 0x1a, 0, 5, 1, 2, 3, 4, 5}
	}
	body = append(body, byte(len(exts)>>8), byte(len(exts)))
	body = append(body, exts...)
	msg := append([]byte{typeNewSessionTicket, 0, byte(len(body) >> 8), byte(len(body))}, body...)
	_, err := c.writeRecordLocked(recordTypeHandshake, msg)
	return err
}

func vf25KeyUpdate(c *Conn, request bool) error {
	c.out.Lock()
	defer c.out.Unlock()
	suite := cipherSuiteTLS13ByID(c.cipherSuite)
	if suite == nil {
		return fmt.Errorf("no TLS 1.3 suite %#04x", c.cipherSuite)
	}
	msg := &keyUpdateMsg{updateRequested: request}
	b, err := msg.marshal()
	if err != nil {
		return err
	}
	if _, err := c.writeRecordLocked(recordTypeHandshake, b); err != nil {
		return err
	}
	c.out.setTrafficSecret(suite, QUICEncryptionLevelInitial, suite.nextTrafficSecret(c.out.trafficSecret))
	return nil
}

func (d *vf25Dir) install() {
	d.curTag = -1
	d.wp.filter = func(rec []byte) []byte {
		lg := vf25RecLog{idx: len(d.recs), tag: d.curTag, bodyLen: len(rec) - 5, typ: rec[0]}
		d.recs = append(d.recs, lg)
		f := d.fault
		if d.hit {
			d.origAfter = append(d.origAfter, append([]byte(nil), rec...))
			d.wireAfter = append(d.wireAfter, rec...)
		}
		if f == nil || f.Kind == "none" || d.hit || lg.idx != f.K {
			return rec
		}
		out := append([]byte(nil), rec...)
		pick := func(n int) int {
			switch f.PosSel {
			case 0:
				return 0
			case 1:
				return n - 1
			case 2:
				return n / 2
			}
			return int(f.PosRnd % uint32(n))
		}
		switch f.Kind {
		case "flip-body":
			if lg.bodyLen == 0 {
				return rec
			}
			i := 5 + pick(lg.bodyLen)
			out[i] ^= f.Mask
			d.hitDetail = fmt.Sprintf("body byte %d of %d ^= %#02x", i-5, lg.bodyLen, f.Mask)
		case "flip-header":
			i := pick(5)
			out[i] ^= f.Mask
			d.hitDetail = fmt.Sprintf("header byte %d ^= %#02x (%x -> %x)", i, f.Mask, rec[:5], out[:5])
		case "truncate":
			keep := 1 + pick(len(rec)-1) // 1 .. len-1 bytes survive
			out = out[:keep]
			d.hitDetail = fmt.Sprintf("cut to %d of %d bytes", keep, len(rec))
		}
		d.hit = true
		d.hitRec = lg
		d.origAfter = [][]byte{append([]byte(nil), rec...)}
		d.wireAfter = append([]byte(nil), out...)
		return out
	}
}

// bound on the number of bytes the reader may legitimately deliver once the fault has been injected
func (d *vf25Dir) bound(overhead int) int {
	b := len(d.sent)
	if d.hitRec.tag >= 0 {
		b = d.opStartSent
		for _, r := range d.recs {
			if r.tag == d.hitRec.tag && r.idx < d.hitRec.idx {
				if p := r.bodyLen - overhead; p > 0 {
					b += p
				}
			}
		}
	}
	// A truncation whose removed bytes happen to equal the bytes that follow (e.g. the last ciphertext byte is 0x17
	// and the next record starts with 0x17) leaves the record intact on the wire and really tampers with a later
	// one: records that the reader sees byte-for-byte unchanged at their original offset may be delivered.
	off := 0
	for i, orig := range d.origAfter {
		if off+len(orig) > len(d.wireAfter) || !bytes.Equal(d.wireAfter[off:off+len(orig)], orig) {
			break
		}
		off += len(orig)
		d.intactAfter = i + 1
		if d.recs[d.hitRec.idx+i].tag >= 0 {
			if p := len(orig) - 5 - overhead; p > 0 {
				b += p
			}
		}
	}
	return b
}

type vf25Outcome struct {
	class string
	viol  string
}

func (d *vf25Dir) nextBuf(bufs []int) int {
	b := bufs[d.bufIdx%len(bufs)]
	d.bufIdx++
	return b
}

// readExactly asks the reader for n more bytes (in chunks) and appends what arrives to d.recvd.
// timeoutRead: one Read of this direction's reader that runs into an expired read deadline - at once (cut == 0), or after
// cut bytes of what is in flight have reached the connection. It must deliver nothing that was not written and fail with
// a timeout; afterwards the deadline is set to dl again and reading goes on.
func (d *vf25Dir) timeoutRead(dl time.Time, cut int) (int, string) {
	past := time.Now().Add(-time.Second)
	if cut == 0 {
		d.rp.SetReadDeadline(past)
	} else {
		first := true
		d.rp.maxRead = func() int {
			if first {
				first = false
				d.rp.SetReadDeadline(past) // takes effect at the next transport read
				return cut
			}
			return 0
		}
	}
	buf := make([]byte, 1<<15)
	n, err := d.r.Read(buf)
	d.rp.maxRead = nil
	d.rp.SetReadDeadline(dl)
	d.recvd = append(d.recvd, buf[:n]...)
	if err == nil {
		// (possible when cut bytes happened to complete a record: nothing to judge, the bytes count as delivered)
		return n, ""
	}
	var ne net.Error
	if !errors.As(err, &ne) || !ne.Timeout() {
		return n, fmt.Sprintf("%s: a Read that hit its read deadline (after %d bytes of the pending data) returned (%d, %v), not a timeout", d.name, cut, n, err)
	}
	return n, ""
}

func (d *vf25Dir) readExactly(n int, bufs []int) error {
	buf := make([]byte, 1<<16)
	for n > 0 {
		want := d.nextBuf(bufs)
		if want > n {
			want = n
		}
		m, err := d.r.Read(buf[:want])
		d.recvd = append(d.recvd, buf[:m]...)
		n -= m
		if err != nil {
			return err
		}
		if m == 0 {
			return fmt.Errorf("vf: Read returned (0, nil) for a %d byte buffer", want)
		}
	}
	return nil
}

// expectFailure: the direction carries a tampered record and has been closed behind the operation containing it.
func (d *vf25Dir) expectFailure(c *vf25Case) string {
	overhead := vf25MinOverhead(c.Suite, c.Vers)
	buf := make([]byte, 1<<16)
	var err error
	for i := 0; i < 1<<20; i++ {
		var m int
		m, err = d.r.Read(buf[:d.nextBuf(c.Bufs)])
		d.recvd = append(d.recvd, buf[:m]...)
		if err != nil {
			break
		}
		if m == 0 {
			return "Read returned (0, nil)"
		}
	}
	what := fmt.Sprintf("%s record #%d (type %d, %d body bytes, op tag %d) %s", d.name, d.hitRec.idx, d.hitRec.typ, d.hitRec.bodyLen, d.hitRec.tag, d.hitDetail)
	if !bytes.HasPrefix(d.sent, d.recvd) {
		return fmt.Sprintf("%s: reader delivered bytes that are not a prefix of what was sent (delivered %d, sent %d, err=%v)", what, len(d.recvd), len(d.sent), err)
	}
	if err == nil {
		return what + ": reader never returned an error"
	}
	if b := d.bound(overhead); len(d.recvd) > b {
		return fmt.Sprintf("%s: reader delivered %d bytes, but only %d precede the tampered record (err=%v)", what, len(d.recvd), b, err)
	}
	if err == io.EOF {
		return what + ": reader reported a clean io.EOF, i.e. it accepted the tampered record"
	}
	// sticky
	m, err2 := d.r.Read(buf[:16])
	if m != 0 || err2 == nil {
		return fmt.Sprintf("%s: after the error %v a further Read returned (%d, %v)", what, err, m, err2)
	}
	return ""
}

// vf25Run executes the case. Returns (class, violation text).
func vf25Run(c *vf25Case) (class string, viol string, info string) {
	scfg := vfServerConfig(c.Suite.keyType, "example.test")
	scfg.MinVersion, scfg.MaxVersion = c.Vers, c.Vers
	if !c.Suite.t13 {
		scfg.CipherSuites = []uint16{c.Suite.id}
	}
	scfg.SessionTicketsDisabled = !c.Tickets
	scfg.DynamicRecordSizingDisabled = c.NoDynamic
	scfg.Rand = vfNewDetRand(c.Seed, "c25-server")
	ccfg := vfClientConfig("example.test")
	ccfg.Rand = vfNewDetRand(c.Seed, "c25-client")
	ccfg.DynamicRecordSizingDisabled = c.NoDynamic
	ccfg.MinVersion, ccfg.MaxVersion = VersionTLS10, VersionTLS13
	if strings.Contains(c.CliSess, "cache") {
		ccfg.ClientSessionCache = NewLRUClientSessionCache(4)
	}
	if strings.Contains(c.CliSess, "tickets-disabled") {
		ccfg.SessionTicketsDisabled = true
	}
	var p *vfPair
	switch c.ClientKind {
	case "custom":
		p = vfNewPair(ccfg, HelloCustom, scfg)
		if err := p.Cli.ApplyPreset(vf25Spec(c.Suite, c.Vers)); err != nil {
			return "setup-failed", "ApplyPreset: " + err.Error(), ""
		}
	case "golang":
		ccfg.MinVersion, ccfg.MaxVersion = c.Vers, c.Vers
		if !c.Suite.t13 {
			ccfg.CipherSuites = []uint16{c.Suite.id}
		}
		p = vfNewPair(ccfg, HelloGolang, scfg)
	default:
		ccfg.OmitEmptyPsk = true
		p = vfNewPair(ccfg, c.Parrot, scfg)
	}
	defer p.Close()
	if cerr, serr := p.Handshake(); cerr != nil || serr != nil {
		msg := fmt.Sprintf("handshake: client=%v server=%v", cerr, serr)
		if c.ClientKind != "custom" && c.ClientKind != "golang" {
			return "parrot-handshake-failed(no verdict)", "", msg
		}
		return "setup-failed", msg, ""
	}
	// a server only sends tickets to a client that announced psk_key_exchange_modes
	nstOK := false
	if hs := vfClientHellosOnWire(p.CP.Written()); len(hs) > 0 {
		if h := vfParseClientHello(hs[len(hs)-1]); h != nil && h.Ext(45) != nil {
			nstOK = true
		}
	}
	cs := p.Cli.ConnectionState()
	if cs.Version != c.Vers || (!c.Suite.t13 && cs.CipherSuite != c.Suite.id) {
		return "setup-failed", fmt.Sprintf("negotiated %#04x/%#04x", cs.CipherSuite, cs.Version), ""
	}
	suite := c.Suite
	if cs.CipherSuite != c.Suite.id { // TLS 1.3 with a parrot/golang client: the server chose
		for _, s := range vf25Suites {
			if s.id == cs.CipherSuite {
				suite = s
			}
		}
		c.Suite = suite
	}
	dl := time.Now().Add(vfIOTimeout)
	p.CP.SetDeadline(dl)
	p.SP.SetDeadline(dl)

	c2s := &vf25Dir{name: "client->server", w: p.Cli, r: p.Srv, wc: p.Cli.Conn, wp: p.CP, rp: p.SP}
	s2c := &vf25Dir{name: "server->client", w: p.Srv, r: p.Cli, wc: p.Srv, wp: p.SP, rp: p.CP}
	if c.Fault.Kind != "none" {
		if c.Fault.C2S {
			c2s.fault = &c.Fault
		} else {
			s2c.fault = &c.Fault
		}
	}
	c2s.install()
	s2c.install()
	data := vfNewDetRand(c.Seed, "c25-data")

	// after every step: a direction that has just been tampered with is closed behind the tampered operation and
	// its reader must fail.
	settle := func() (done bool, v string) {
		for _, d := range []*vf25Dir{c2s, s2c} {
			if d.hit && !d.closed {
				d.wp.CloseWrite()
				d.closed = true
				return true, d.expectFailure(c)
			}
		}
		return false, ""
	}
	faultClass := func() string {
		d := c2s
		if !c.Fault.C2S {
			d = s2c
		}
		rt := "data"
		switch {
		case d.hitRec.tag < 0 && d.hitRec.typ == 21:
			rt = "alert"
		case d.hitRec.tag < 0:
			rt = "keyupdate"
		}
		return fmt.Sprintf("fault-detected/%s/%s", c.Fault.Kind, rt)
	}

	for i, op := range c.Ops {
		d, rev := s2c, c2s
		if op.Client {
			d, rev = c2s, s2c
		}
		_ = rev
		if op.KeyUpdate {
			if c.Vers != VersionTLS13 {
				continue
			}
			if op.Ticket > 0 && !op.Client {
				if !nstOK {
					continue
				}
				if err := vf25Ticket(d.wc, op.Ticket, c.Seed+uint64(i)); err != nil {
					return "error", fmt.Sprintf("op %d: writing a NewSessionTicket on %s failed: %v", i, d.name, err), ""
				}
			} else if err := vf25KeyUpdate(d.wc, op.Request); err != nil {
				return "error", fmt.Sprintf("op %d: key update on %s failed: %v", i, d.name, err), ""
			}
		} else {
			if op.TimeoutRead == 1 {
				if _, v := d.timeoutRead(dl, 0); v != "" {
					return "error", fmt.Sprintf("op %d: %s", i, v), ""
				}
			}
			msg := make([]byte, op.Size)
			data.Read(msg)
			d.curTag, d.opStartSent = i, len(d.sent)
			n, err := d.w.Write(msg)
			d.curTag = -1
			if n >= 0 && n <= len(msg) {
				d.sent = append(d.sent, msg[:n]...)
			}
			if err != nil || n != len(msg) {
				return "error", fmt.Sprintf("op %d: Write(%d bytes) on %s returned (%d, %v)", i, len(msg), d.name, n, err), ""
			}
		}
		if done, v := settle(); done {
			return faultClass(), v, ""
		}
		if !op.KeyUpdate && op.Size > 0 {
			already := 0
			if op.TimeoutRead == 2 {
				n, v := d.timeoutRead(dl, op.TimeoutCut)
				if v != "" {
					return "error", fmt.Sprintf("op %d: %s", i, v), ""
				}
				already = n
			}
			if err := d.readExactly(op.Size-already, c.Bufs); err != nil {
				return "error", fmt.Sprintf("op %d: %s reader failed without tampering: %v (delivered %d of %d)", i, d.name, err, len(d.recvd), len(d.sent)), ""
			}
			if !bytes.Equal(d.recvd, d.sent) {
				return "error", fmt.Sprintf("op %d: %s stream differs: read %s, written %s", i, d.name, vfHex(d.recvd[len(d.recvd)-op.Size:]), vfHex(vf25Tail(d.sent, op.Size))), ""
			}
			// the read may have made the reader's connection answer a key update in the other direction
			if done, v := settle(); done {
				return faultClass(), v, ""
			}
		}
	}
	// close phase: close_notify both ways, every reader must see a clean EOF and nothing else
	for _, d := range []*vf25Dir{c2s, s2c} {
		if c.LateTail > 0 && c.Fault.Kind == "none" {
			msg := make([]byte, c.LateTail)
			data.Read(msg)
			d.curTag, d.opStartSent = len(c.Ops), len(d.sent)
			n, err := d.w.Write(msg)
			d.curTag = -1
			if err != nil || n != len(msg) {
				return "error", fmt.Sprintf("last Write(%d bytes) on %s returned (%d, %v)", len(msg), d.name, n, err), ""
			}
			d.sent = append(d.sent, msg...)
			if err := d.wc.CloseWrite(); err != nil {
				return "error", fmt.Sprintf("close_notify on %s failed: %v", d.name, err), ""
			}
			// io.Reader allows the last bytes to come together with io.EOF (the close_notify is already buffered)
			if err := d.readExactly(c.LateTail, c.Bufs); err != nil && !(err == io.EOF && len(d.recvd) == len(d.sent)) {
				return "error", fmt.Sprintf("%s: data written just before close_notify: reader failed: %v (delivered %d of %d)", d.name, err, len(d.recvd), len(d.sent)), ""
			}
		}
		if err := d.wc.CloseWrite(); err != nil {
			return "error", fmt.Sprintf("close_notify on %s failed: %v", d.name, err), ""
		}
		if done, v := settle(); done {
			return faultClass(), v, ""
		}
		buf := make([]byte, 64)
		n, err := d.r.Read(buf)
		if done, v := settle(); done { // the reader answered a pending key update request while reading
			_ = v
			// the reverse direction was tampered: judge it there; this direction's own result is checked first
			if n != 0 || err != io.EOF {
				return "error", fmt.Sprintf("%s: want clean EOF after close_notify, got (%d, %v)", d.name, n, err), ""
			}
			return faultClass(), v, ""
		}
		if n != 0 || err != io.EOF {
			return "error", fmt.Sprintf("%s: want (0, io.EOF) after close_notify, got (%d, %v); delivered %d of %d", d.name, n, err, len(d.recvd), len(d.sent)), ""
		}
		if !bytes.Equal(d.recvd, d.sent) {
			return "error", fmt.Sprintf("%s: stream differs at the end (%d read, %d written)", d.name, len(d.recvd), len(d.sent)), ""
		}
	}
	if c.Fault.Kind != "none" {
		return "fault-not-reached", "", ""
	}
	return "intact", "", ""
}

func vf25Tail(sent []byte, n int) []byte { return sent[len(sent)-n:] }

// ---- generators ----

var vf25Sizes = []int{0, 1, 1<<14 - 1, 1 << 14, 1<<14 + 1, 1 << 15, 123674, 140000} // the last two: one Write that is still pending when the dynamic record size reaches its maximum
var vf25BufChoices = []int{1, 2, 7, 512, 1<<14 - 1, 1 << 14, 1<<14 + 1, 1 << 15, 1 << 16}

var vf25ParrotCacheOnce sync.Once
var vf25ParrotCache map[uint16][]vfParrot

func vf25ParrotsOffering(id uint16) []vfParrot {
	vf25ParrotCacheOnce.Do(func() {
		vf25ParrotCache = map[uint16][]vfParrot{}
		for _, pr := range vfParrots {
			spec, err := utlsIdToSpec(pr.ID)
			if err != nil {
				continue
			}
			for _, s := range spec.CipherSuites {
				vf25ParrotCache[s] = append(vf25ParrotCache[s], pr)
			}
		}
	})
	return vf25ParrotCache[id]
}

func vf25GenCase(rt *rapid.T) *vf25Case {
	c := &vf25Case{}
	if rapid.IntRange(0, 2).Draw(rt, "tls13") == 0 {
		// a third of the sessions at TLS 1.3, the only version with key updates
		c.Suite = vf25Suites[22+rapid.IntRange(0, 2).Draw(rt, "suite13")]
		if !c.Suite.t13 {
			panic("vf25Suites layout changed")
		}
	} else {
		c.Suite = vf25Suites[rapid.IntRange(0, len(vf25Suites)-1).Draw(rt, "suite")]
	}
	vs := c.Suite.versions()
	c.Vers = vs[rapid.IntRange(0, len(vs)-1).Draw(rt, "vers")]
	c.ClientKind = "custom"
	if !c.Suite.trick {
		switch k := rapid.IntRange(0, 9).Draw(rt, "clientkind"); {
		case k <= 5:
		case k <= 7:
			c.ClientKind = "golang"
		default:
			if prs := vf25ParrotsOffering(c.Suite.id); len(prs) > 0 {
				pr := prs[rapid.IntRange(0, len(prs)-1).Draw(rt, "parrot")]
				c.ClientKind, c.Parrot = pr.Name, pr.ID
			}
		}
	}
	c.Tickets = rapid.Bool().Draw(rt, "tickets")
	c.CliSess = rapid.SampledFrom([]string{"", "", "cache", "tickets-disabled", "cache+tickets-disabled", "cache+tickets-disabled"}).Draw(rt, "client_session_settings")
	c.NoDynamic = rapid.Bool().Draw(rt, "nodynamic")
	c.Seed = rapid.Uint64().Draw(rt, "seed")
	nops := rapid.IntRange(1, 8).Draw(rt, "nops")
	for i := 0; i < nops; i++ {
		op := vf25Op{Client: rapid.Bool().Draw(rt, "client")}
		if c.Vers == VersionTLS13 && rapid.IntRange(0, 3).Draw(rt, "ku") == 0 {
			op.KeyUpdate = true
			op.Request = rapid.Bool().Draw(rt, "kureq")
			if !op.Client && rapid.IntRange(0, 2).Draw(rt, "ticket_instead") == 0 {
				op.Ticket = rapid.IntRange(1, 4).Draw(rt, "ticket_variant")
			}
		} else {
			switch rapid.IntRange(0, 3).Draw(rt, "sizekind") {
			case 0:
				op.Size = rapid.IntRange(0, 40000).Draw(rt, "size")
			case 1:
				op.Size = rapid.IntRange(1, 64).Draw(rt, "small")
			default:
				op.Size = vf25Sizes[rapid.IntRange(0, len(vf25Sizes)-1).Draw(rt, "sizeidx")]
			}
		}
		if !op.KeyUpdate && rapid.IntRange(0, 5).Draw(rt, "read_timeout") == 0 {
			op.TimeoutRead = rapid.IntRange(1, 2).Draw(rt, "read_timeout_kind")
			op.TimeoutCut = rapid.SampledFrom([]int{1, 3, 5, 6, 100}).Draw(rt, "read_timeout_cut")
		}
		c.Ops = append(c.Ops, op)
	}
	nb := rapid.IntRange(1, 4).Draw(rt, "nbufs")
	for i := 0; i < nb; i++ {
		c.Bufs = append(c.Bufs, vf25BufChoices[rapid.IntRange(0, len(vf25BufChoices)-1).Draw(rt, "buf")])
	}
	if rapid.Bool().Draw(rt, "late_tail") {
		c.LateTail = rapid.SampledFrom([]int{1, 2, 100, 1000, 16384, 16385, 40000}).Draw(rt, "late_tail_size")
	}
	c.Fault.Kind = []string{"none", "none", "flip-body", "flip-body", "flip-header", "truncate"}[rapid.IntRange(0, 5).Draw(rt, "faultkind")]
	if c.Fault.Kind != "none" {
		c.Fault.C2S = rapid.Bool().Draw(rt, "faultc2s")
		c.Fault.K = rapid.IntRange(0, 6).Draw(rt, "faultk")
		c.Fault.PosSel = rapid.IntRange(0, 3).Draw(rt, "possel")
		c.Fault.PosRnd = rapid.Uint32().Draw(rt, "posrnd")
		if rapid.Bool().Draw(rt, "singlebit") {
			c.Fault.Mask = 1 << uint(rapid.IntRange(0, 7).Draw(rt, "bit"))
		} else {
			c.Fault.Mask = byte(rapid.IntRange(1, 255).Draw(rt, "mask"))
		}
	}
	return c
}

func vf25Judge(st *vfStats, t vfFataler, c *vf25Case) {
	st.Eval()
	var class, viol, info string
	vf25Bracket(c.Suite, func() { class, viol, info = vf25Run(c) })
	if info != "" {
		st.Extra("no-verdict:"+c.ClientKind+fmt.Sprintf("/%#04x/%#04x", c.Suite.id, c.Vers), info)
	}
	st.Class(class)
	st.Class(fmt.Sprintf("suite=%#04x/%#04x", c.Suite.id, c.Vers))
	ck := c.ClientKind
	if ck != "custom" && ck != "golang" {
		ck = "parrot"
	}
	st.Class("client=" + ck)
	hasKU := false
	big := false
	for _, op := range c.Ops {
		if op.KeyUpdate && c.Vers == VersionTLS13 {
			hasKU = true
		}
		if op.Size >= 1<<14-1 {
			big = true
		}
	}
	if hasKU {
		st.Class("with-keyupdate")
	}
	for _, op := range c.Ops {
		if op.Ticket > 0 && !op.Client && c.Vers == VersionTLS13 {
			st.Class(fmt.Sprintf("with-post-handshake-ticket(variant %d)", op.Ticket))
		}
	}
	if big {
		st.Class("with-record-boundary-size")
	}
	if viol != "" {
		st.Violation(t, "%v: %s", c.describe(), viol)
	}
	if class == "intact" || strings.HasPrefix(class, "fault-detected") {
		st.NonTrivial(fmt.Sprintf("%04x|%04x|%s|%d|%s|%v|%+v", c.Suite.id, c.Vers, c.ClientKind, c.Seed, c.opsString(), c.Bufs, c.Fault))
	}
	st.Sample(c.describe())
}

func TestVerifC25Random(t *testing.T) {
	st := vfNewStats(t, "C25")
	rapid.Check(t, func(rt *rapid.T) {
		vf25Judge(st, rt, vf25GenCase(rt))
	})
}

// TestVerifC25Sweep: every (suite, version) x {no fault, body flip server->client, truncation client->server} with a
// fixed script that crosses every record-size boundary in both directions (plus key updates in TLS 1.3).
func TestVerifC25Sweep(t *testing.T) {
	st := vfNewStats(t, "C25")
	script := []vf25Op{{Client: true, Size: 1}, {Client: false, Size: 1<<14 + 1}, {Client: true, Size: 0}, {Client: true, KeyUpdate: true, Request: true},
		{Client: true, Size: 1 << 15}, {Client: false, KeyUpdate: true}, {Client: false, KeyUpdate: true, Ticket: 2}, {Client: false, KeyUpdate: true, Ticket: 3}, {Client: false, Size: 1<<14 - 1}, {Client: true, Size: 1 << 14}, {Client: false, Size: 2}}
	faults := []vf25Fault{{Kind: "none"}, {Kind: "flip-body", C2S: false, K: 1, PosSel: 1, Mask: 0x01}, {Kind: "truncate", C2S: true, K: 2, PosSel: 2},
		{Kind: "flip-body", C2S: true, K: 0, PosSel: 0, Mask: 0x80}}
	for si, s := range vf25Suites {
		for _, v := range s.versions() {
			for fi, f := range faults {
				c := &vf25Case{Suite: s, Vers: v, ClientKind: "custom", Tickets: fi%2 == 0, NoDynamic: (si+fi)%2 == 0, Seed: uint64(si*10 + fi),
					CliSess: []string{"cache+tickets-disabled", "", "cache", "tickets-disabled"}[(si+fi)%4],
					Ops:     script, Bufs: []int{1 << 14, 7, 1<<14 + 1}, Fault: f}
				vf25Judge(st, t, c)
			}
		}
	}
}
