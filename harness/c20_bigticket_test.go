//go:build verif

package tls

// C20 (extension): the injected TLS 1.3 session carries a LARGE ticket (a server that stores state through WrapSession
// / SessionState.Extra, client certificate chains): the pre_shared_key body then exceeds 255 bytes and the hello may
// exceed 4 KiB. Supplied through SetPskExtension in the documented order, the identity must reach the server as given
// and the session must be resumed.

import (
	"bytes"
	"fmt"
	"testing"

	"pgregory.net/rapid"

	"github.com/refraction-networking/utls/internal/tls13"
)

func TestVerifC20LargeTicketPSK(t *testing.T) {
	st := vfNewStats(t, "C20")
	var psk []vfParrot
	for _, q := range vfParrots {
		if vfIsPSKParrot(q) {
			psk = append(psk, q)
		}
	}
	rapid.Check(t, func(rt *rapid.T) {
		p := psk[rapid.IntRange(0, len(psk)-1).Draw(rt, "parrot")]
		extra := rapid.SampledFrom([]int{0, 100, 120, 200, 300, 1000, 2500, 4000}).Draw(rt, "ticket_extra")
		how := rapid.SampledFrom([]string{"SetPskExtension", "BuildWithoutSession+SetPskExtension"}).Draw(rt, "how")
		// sha384: both connections use the parrot's spec with TLS_AES_256_GCM_SHA384 as its only TLS 1.3 suite, so the
		// injected session has a 48-byte binder (the parrots' own lists let a Go server pick a SHA-256 suite)
		sha384 := rapid.IntRange(0, 2).Draw(rt, "only_sha384_suite") == 0
		newClient := func(conn *vfConn, cfg *Config) (*UConn, error) {
			if !sha384 {
				return UClient(conn, cfg, p.ID), nil
			}
			spec, err := UTLSIdToSpec(p.ID)
			if err != nil {
				return nil, err
			}
			var suites []uint16
			for _, cs := range spec.CipherSuites {
				if cs != TLS_AES_128_GCM_SHA256 && cs != TLS_CHACHA20_POLY1305_SHA256 {
					suites = append(suites, cs)
				}
			}
			spec.CipherSuites = suites
			uc := UClient(conn, cfg, HelloCustom)
			return uc, uc.ApplyPreset(&spec)
		}
		name := "bigticket.c20.test"
		grab := &vf20GrabCache{}
		st.Eval()
		scfg := vfServerConfig("ecdsa", name)
		scfg.MinVersion = VersionTLS13
		cfg := scfg
		scfg.WrapSession = func(cs ConnectionState, ss *SessionState) ([]byte, error) {
			if extra > 0 {
				ss.Extra = append(ss.Extra, make([]byte, extra))
			}
			return cfg.EncryptTicket(cs, ss)
		}
		scfg.UnwrapSession = func(id []byte, cs ConnectionState) (*SessionState, error) { return cfg.DecryptTicket(id, cs) }
		c1 := vfClientConfig(name)
		c1.OmitEmptyPsk = true
		c1.ClientSessionCache = grab
		p1 := vfNewPair(c1, p.ID, scfg)
		if sha384 {
			uc1, err := newClient(p1.CP, c1)
			if err != nil {
				p1.Close()
				st.Class("large-ticket-psk:sha384-spec-not-applicable")
				return
			}
			p1.Cli = uc1
		}
		if cerr, serr := p1.Handshake(); cerr != nil || serr != nil || p1.Echo([]byte("a"), []byte("b")) != nil || grab.last == nil {
			p1.Close()
			st.Class("large-ticket-psk:first-connection-failed")
			return
		}
		p1.Close()
		ticket, sess, err := grab.last.ResumptionState()
		if err != nil || sess == nil || sess.version != VersionTLS13 {
			st.Class("large-ticket-psk:no-tls13-session")
			return
		}
		cp, sp := vfPipe()
		c2 := vfClientConfig(name)
		c2.OmitEmptyPsk = true
		uc, err := newClient(cp, c2)
		if err != nil {
			st.Violation(rt, "%s: the spec that worked for the first connection is refused for the second: %v", p.Name, err)
		}
		uc.SetSessionCache(NewLRUClientSessionCache(2))
		if sha384 && sess.cipherSuite != TLS_AES_256_GCM_SHA384 {
			st.Violation(rt, "%s: a hello offering only TLS_AES_256_GCM_SHA384 negotiated %04x", p.Name, sess.cipherSuite)
		}
		desc := fmt.Sprintf("%s: TLS 1.3 session with a %d-byte ticket (server adds %d bytes of state) injected with %s", p.Name, len(ticket), extra, how)
		if how != "SetPskExtension" {
			if err := uc.BuildHandshakeStateWithoutSession(); err != nil {
				st.Violation(rt, "%s: BuildHandshakeStateWithoutSession: %v", desc, err)
			}
		}
		suite := cipherSuiteTLS13ByID(sess.cipherSuite)
		es := tls13.NewEarlySecret(suite.hash.New, sess.secret)
		ext := &UtlsPreSharedKeyExtension{}
		ext.InitializeByUtls(sess, es.Secret(), es.ResumptionBinderKey(), []PskIdentity{{Label: ticket, ObfuscatedTicketAge: 0x1000 + sess.ageAdd}})
		if err := uc.SetPskExtension(ext); err != nil {
			st.Violation(rt, "%s: SetPskExtension refused a session the library itself produced: %v", desc, err)
		}
		srv := Server(sp, scfg)
		pair := &vfPair{CP: cp, SP: sp, Cli: uc, Srv: srv}
		defer pair.Close()
		cerr, serr := pair.Handshake()
		if cerr == errVfHang || serr == errVfHang {
			st.Violation(rt, "%s: hang", desc)
		}
		if cerr != nil || serr != nil {
			st.Violation(rt, "%s: handshake failed: client=%v server=%v", desc, cerr, serr)
		}
		if hs := vfClientHellosOnWire(cp.Written()); len(hs) > 0 {
			h := vfParseClientHello(hs[0])
			if len(h.Violations) > 0 {
				st.Violation(rt, "%s: the ClientHello on the wire is malformed: %v", desc, h.Violations)
			}
			if o := h.PSK(); o == nil || len(o.Identities) != 1 || !bytes.Equal(o.Identities[0], ticket) {
				st.Violation(rt, "%s: the injected identity is not on the wire as given", desc)
			}
		}
		cs, ss := pair.Cli.ConnectionState(), pair.Srv.ConnectionState()
		if !cs.DidResume || !ss.DidResume {
			st.Violation(rt, "%s: not resumed (client %v, server %v)", desc, cs.DidResume, ss.DidResume)
		}
		st.Class(fmt.Sprintf("large-ticket-psk:resumed(+%d)", extra))
		if sha384 {
			st.Class("injected-psk:sha384-session-resumed")
		}
		st.NonTrivial(fmt.Sprintf("large-ticket-psk|%s|%d|%s|%v", p.Name, extra, how, sha384))
	})
}
