//go:build verif

package tls

// Scripted TLS 1.3 server (DESIGN.md 3.4). It replaces the proposed verif-tagged repo hooks: a server *Conn
// created by Server(pipeEnd, cfg) gets its handshakeFn replaced by vsrvRun13, which speaks the server side of
// TLS 1.3 with the repo's internal primitives (record layer, tls13 key schedule) but builds every message itself,
// so a script can (a) force, coherently in the server's own state, values the client did not offer, (b) send
// messages upstream's server never sends (HRR with cookie / arbitrary group, CompressedCertificate, ALPS in
// EncryptedExtensions, X25519Kyber768Draft00 share), (c) read the client's EncryptedExtensions, and (d) pass every
// outgoing handshake message through a byte-level mutator before it enters transcript and record layer.

import (
	"context"
	"crypto"
	"crypto/hmac"
	"crypto/mlkem"
	"crypto/rand"
	"crypto/rsa"
	"encoding/binary"
	"errors"
	"fmt"
	"io"

	"github.com/refraction-networking/utls/internal/tls13"
	"golang.org/x/crypto/sha3"
)

type vsrvScript struct {
	// ---- ServerHello (zero value = what a compliant server would do) ----
	Suite uint16 // suite id announced (0 = first of AES128,AES256,CHACHA the client offers)
	Group uint16 // key_share group announced (0 = first client share the server implements)
	// ExchangeAs: perform the key exchange with the client's share for THIS group while announcing Group
	// (cooperative adversary: a client that fails to reject Group would complete the handshake)
	ExchangeAs uint16
	// ShareLen >= 0: the key_exchange of the ServerHello key_share is cut or zero-extended to this many bytes (the
	// key schedule then runs on whatever the real exchange gave: a hostile server)
	ShareLen          int
	ShareLenSet       bool // ShareLen applies also when it is 0
	OverrideSessionID bool
	SessionID         []byte
	Compression       uint8
	SelectedPSK       *uint16 // selected_identity in a pre_shared_key ServerHello extension
	// ResumePSK: when the hello offers PSK identities, decrypt the first one with the server's ticket keys and really
	// resume with it (PSK key schedule, no certificate), announcing selected_identity = *SelectedPSK (default 0): a
	// cooperative adversary for the PSK-identity check
	ResumePSK        bool
	UsedPSK          bool
	LegacyVersion    uint16 // 0 = 0x0303
	SupportedVersion uint16 // 0 = 0x0304
	ExtraSHExts      []vfExt

	// ---- HelloRetryRequest ----
	HRR      bool
	HRRGroup uint16 // 0 = no key_share in the HRR
	// HRRClean: the HelloRetryRequest itself is compliant (echoes the session id, compression 0, the first TLS 1.3
	// suite the client offers); Suite / SessionID / Compression then only show in the ServerHello that follows the
	// second ClientHello, and the key schedule runs with the HelloRetryRequest's suite (cooperative adversary)
	HRRClean  bool
	HRRCookie []byte // nil = no cookie
	// ---- EncryptedExtensions ----
	ALPN          *string // nil = first client protocol the server Config lists (or none); &"" = none
	ALPSCodepoint uint16
	ALPSData      []byte
	// ALPSFirst: application_settings is listed before the ALPN extension (RFC 8446 allows any order)
	ALPSFirst   bool
	ExtraEEExts []vfExt
	// ---- Certificate ----
	Cert *Certificate // nil = cfg.Certificates[0]
	// CertBody, when set, rewrites the body of the Certificate message (after the 4-byte header) before it is sent
	// or compressed: structurally valid but hostile certificate lists
	CertBody     func(body []byte) []byte
	CompressAlg  uint16 // 0 = plain Certificate message
	CompressFn   func(certMsg []byte) (compressed []byte, declaredLen uint32)
	CertRequest  bool
	SendTicket   bool
	ReadClientEE bool // read a client EncryptedExtensions before the client Finished (set automatically with ALPS)

	// Mutate is applied to every outgoing handshake message (index counts outgoing handshake messages from 0).
	Mutate func(idx int, typ uint8, raw []byte) []byte

	// ---- results ----
	Log        []string
	CH1, CH2   *clientHelloMsg
	ClientEE   *utlsClientEncryptedExtensionsMsg
	Completed  bool
	SentSuite  uint16
	SentGroup  uint16
	UsedShare  bool // the announced group had a client share (a real key exchange was possible)
	outIdx     int
	transcript interface {
		io.Writer
		Sum([]byte) []byte
		Reset()
	}
}

func (s *vsrvScript) logf(f string, a ...any) { s.Log = append(s.Log, fmt.Sprintf(f, a...)) }

type vsrvRaw struct{ b []byte }

func (m *vsrvRaw) marshal() ([]byte, error) { return m.b, nil }
func (m *vsrvRaw) unmarshal([]byte) bool    { return false }

// ---- tiny TLS builders ----

type vsrvB struct{ b []byte }

func (b *vsrvB) u8(v uint8)   { b.b = append(b.b, v) }
func (b *vsrvB) u16(v uint16) { b.b = append(b.b, byte(v>>8), byte(v)) }
func (b *vsrvB) u24(v int)    { b.b = append(b.b, byte(v>>16), byte(v>>8), byte(v)) }
func (b *vsrvB) raw(v []byte) { b.b = append(b.b, v...) }
func (b *vsrvB) vec8(v []byte) {
	b.u8(uint8(len(v)))
	b.raw(v)
}
func (b *vsrvB) vec16(v []byte) {
	b.u16(uint16(len(v)))
	b.raw(v)
}
func (b *vsrvB) vec24(v []byte) {
	b.u24(len(v))
	b.raw(v)
}

func vsrvMsg(typ uint8, body []byte) []byte {
	b := &vsrvB{}
	b.u8(typ)
	b.vec24(body)
	return b.b
}

func vsrvExts(exts []vfExt) []byte {
	b := &vsrvB{}
	for _, e := range exts {
		b.u16(e.Type)
		b.vec16(e.Body)
	}
	return b.b
}

func vsrvServerHello(legacy uint16, random, sid []byte, suite uint16, comp uint8, exts []vfExt) []byte {
	b := &vsrvB{}
	b.u16(legacy)
	b.raw(random)
	b.vec8(sid)
	b.u16(suite)
	b.u8(comp)
	b.vec16(vsrvExts(exts))
	return vsrvMsg(typeServerHello, b.b)
}

// send writes one handshake message (after mutation) into transcript and record layer.
func (s *vsrvScript) send(c *Conn, raw []byte, toTranscript bool) error {
	if s.Mutate != nil {
		raw = s.Mutate(s.outIdx, raw[0], raw)
	}
	s.outIdx++
	if raw == nil {
		return nil // dropped by the mutator
	}
	var tr transcriptHash
	if toTranscript {
		tr = s.transcript
	}
	_, err := c.writeHandshakeRecord(&vsrvRaw{raw}, tr)
	return err
}

func vsrvKyberShared(ct, K []byte) []byte {
	h := sha3.NewShake256()
	h.Write(K)
	ch := sha3.New256()
	ch.Write(ct)
	h.Write(ch.Sum(nil))
	out := make([]byte, 32)
	h.Read(out)
	return out
}

// vsrvKeyExchange performs the server side of the key exchange for group g given the client's share.
func vsrvKeyExchange(g uint16, clientShare []byte) (serverShare, shared []byte, err error) {
	ecdh := func(curve CurveID, peer []byte) ([]byte, []byte, error) {
		key, err := generateECDHEKey(rand.Reader, curve)
		if err != nil {
			return nil, nil, err
		}
		pk, err := key.Curve().NewPublicKey(peer)
		if err != nil {
			return nil, nil, fmt.Errorf("invalid client share: %w", err)
		}
		sh, err := key.ECDH(pk)
		if err != nil {
			return nil, nil, err
		}
		return key.PublicKey().Bytes(), sh, nil
	}
	switch g {
	case 0x001d, 0x0017, 0x0018, 0x0019:
		return ecdh(CurveID(g), clientShare)
	case vfGroupX25519MLKEM768:
		if len(clientShare) != mlkem.EncapsulationKeySize768+32 {
			return nil, nil, errors.New("bad X25519MLKEM768 client share size")
		}
		pub, sh, err := ecdh(X25519, clientShare[mlkem.EncapsulationKeySize768:])
		if err != nil {
			return nil, nil, err
		}
		k, err := mlkem.NewEncapsulationKey768(clientShare[:mlkem.EncapsulationKeySize768])
		if err != nil {
			return nil, nil, err
		}
		ss, ct := k.Encapsulate()
		return append(ct, pub...), append(ss, sh...), nil
	case 0x6399: // X25519Kyber768Draft00: x25519 || kyber
		if len(clientShare) != 32+mlkem.EncapsulationKeySize768 {
			return nil, nil, errors.New("bad X25519Kyber768Draft00 client share size")
		}
		pub, sh, err := ecdh(X25519, clientShare[:32])
		if err != nil {
			return nil, nil, err
		}
		k, err := mlkem.NewEncapsulationKey768(clientShare[32:])
		if err != nil {
			return nil, nil, err
		}
		K, ct := k.Encapsulate()
		return append(pub, ct...), append(sh, vsrvKyberShared(ct, K)...), nil
	}
	return nil, nil, fmt.Errorf("group %#x not implemented by the scripted server", g)
}

func vsrvFakeShare(g uint16) []byte {
	n := vfShareSize(g)
	switch g {
	case vfGroupX25519MLKEM768:
		n = mlkem.CiphertextSize768 + 32
	case 0x6399:
		n = 32 + mlkem.CiphertextSize768
	}
	if n == 0 {
		n = 32
	}
	b := make([]byte, n)
	rand.Read(b)
	if g == 0x0017 || g == 0x0018 || g == 0x0019 {
		// a real point, so that a lax client would get as far as possible
		if key, err := generateECDHEKey(rand.Reader, CurveID(g)); err == nil {
			return key.PublicKey().Bytes()
		}
	}
	return b
}

var errVsrvClientAbort = errors.New("vsrv: client aborted")

// vsrvInstall replaces the handshake function of a server Conn by the script.
func vsrvInstall(srv *Conn, s *vsrvScript) {
	srv.handshakeFn = func(ctx context.Context) error { return vsrvRun13(ctx, srv, s) }
}

func vsrvRun13(ctx context.Context, c *Conn, s *vsrvScript) error {
	msg, err := c.readHandshake(nil)
	if err != nil {
		return err
	}
	ch, ok := msg.(*clientHelloMsg)
	if !ok {
		c.sendAlert(alertUnexpectedMessage)
		return fmt.Errorf("vsrv: expected ClientHello, got %T", msg)
	}
	s.CH1 = ch
	c.vers = VersionTLS13
	c.haveVers = true
	c.in.version = VersionTLS13
	c.out.version = VersionTLS13

	// ---- suite ----
	suiteID := s.Suite
	cleanSuiteID := uint16(0)
	for _, id := range []uint16{TLS_AES_128_GCM_SHA256, TLS_AES_256_GCM_SHA384, TLS_CHACHA20_POLY1305_SHA256} {
		for _, o := range ch.cipherSuites {
			if o == id && cleanSuiteID == 0 {
				cleanSuiteID = id
			}
		}
	}
	if suiteID == 0 {
		suiteID = cleanSuiteID
		if suiteID == 0 {
			c.sendAlert(alertHandshakeFailure)
			return errors.New("vsrv: no TLS 1.3 suite offered")
		}
	}
	hrrClean := s.HRR && s.HRRClean && cleanSuiteID != 0
	var psk []byte
	if s.ResumePSK && len(ch.pskIdentities) > 0 {
		c.ticketKeys = c.config.ticketKeys(nil)
		if plaintext := c.config.decryptTicket(ch.pskIdentities[0].label, c.ticketKeys); plaintext != nil {
			if ss, err := ParseSessionState(plaintext); err == nil && ss.version == VersionTLS13 {
				psk = ss.secret
				if s.Suite == 0 {
					suiteID = ss.cipherSuite
				}
			}
		}
		if psk == nil {
			s.logf("ResumePSK: the offered identity could not be decrypted")
		}
	}
	suite := cipherSuiteTLS13ByID(suiteID)
	if hrrClean {
		suite = cipherSuiteTLS13ByID(cleanSuiteID)
	}
	if suite == nil {
		suite = cipherSuiteTLS13ByID(TLS_AES_128_GCM_SHA256) // announced id is not a TLS 1.3 suite: schedule with a fallback
	}
	s.SentSuite = suiteID
	c.cipherSuite = suite.id
	tr := suite.hash.New()
	s.transcript = tr

	sid := ch.sessionId
	if s.OverrideSessionID {
		sid = s.SessionID
	}
	legacy := s.LegacyVersion
	if legacy == 0 {
		legacy = VersionTLS12
	}
	sv := s.SupportedVersion
	if sv == 0 {
		sv = VersionTLS13
	}
	svExt := vfExt{Type: extensionSupportedVersions, Body: []byte{byte(sv >> 8), byte(sv)}}

	// ---- HelloRetryRequest ----
	if s.HRR {
		tr.Write(ch.original)
		chHash := tr.Sum(nil)
		tr.Reset()
		tr.Write([]byte{typeMessageHash, 0, 0, uint8(len(chHash))})
		tr.Write(chHash)
		exts := []vfExt{svExt}
		if s.HRRGroup != 0 {
			exts = append(exts, vfExt{Type: extensionKeyShare, Body: []byte{byte(s.HRRGroup >> 8), byte(s.HRRGroup)}})
		}
		if s.HRRCookie != nil {
			b := &vsrvB{}
			b.vec16(s.HRRCookie)
			exts = append(exts, vfExt{Type: extensionCookie, Body: b.b})
		}
		hrr := vsrvServerHello(legacy, helloRetryRequestRandom, sid, suiteID, s.Compression, exts)
		if hrrClean {
			hrr = vsrvServerHello(legacy, helloRetryRequestRandom, ch.sessionId, cleanSuiteID, 0, exts)
		}
		if err := s.send(c, hrr, true); err != nil {
			return err
		}
		if err := c.writeChangeCipherRecord(); err != nil {
			return err
		}
		msg, err := c.readHandshake(nil)
		if err != nil {
			s.logf("reading second ClientHello: %v", err)
			return fmt.Errorf("%w after HRR: %v", errVsrvClientAbort, err)
		}
		ch2, ok := msg.(*clientHelloMsg)
		if !ok {
			c.sendAlert(alertUnexpectedMessage)
			return fmt.Errorf("vsrv: expected second ClientHello, got %T", msg)
		}
		s.CH2 = ch2
		ch = ch2
		c.didHRR = true
	}

	// ---- key share ----
	group := s.Group
	if group == 0 && s.HRR && s.HRRGroup != 0 {
		group = s.HRRGroup
	}
	if group == 0 {
		for _, ks := range ch.keyShares {
			switch uint16(ks.group) {
			case 0x001d, 0x0017, 0x0018, 0x0019, vfGroupX25519MLKEM768, 0x6399:
				if group == 0 {
					group = uint16(ks.group)
				}
			}
		}
		if group == 0 {
			c.sendAlert(alertHandshakeFailure)
			return errors.New("vsrv: no usable client key share")
		}
	}
	var clientShare []byte
	kxGroup := group
	if s.ExchangeAs != 0 {
		kxGroup = s.ExchangeAs
	}
	for _, ks := range ch.keyShares {
		if uint16(ks.group) == kxGroup && clientShare == nil {
			clientShare = ks.data
		}
	}
	var serverShare, shared []byte
	if clientShare != nil {
		serverShare, shared, err = vsrvKeyExchange(kxGroup, clientShare)
		if err != nil {
			s.logf("key exchange with the client's share failed: %v", err)
			clientShare = nil
		} else {
			s.UsedShare = true
		}
	}
	if clientShare == nil {
		serverShare = vsrvFakeShare(group)
		shared = make([]byte, 32)
		rand.Read(shared)
	}
	if s.ShareLen > 0 || s.ShareLenSet {
		if s.ShareLen <= len(serverShare) {
			serverShare = serverShare[:s.ShareLen]
		} else {
			serverShare = append(append([]byte(nil), serverShare...), make([]byte, s.ShareLen-len(serverShare))...)
		}
	}
	s.SentGroup = group
	c.curveID = CurveID(group)

	// ---- ServerHello ----
	random := make([]byte, 32)
	rand.Read(random)
	ksb := &vsrvB{}
	ksb.u16(group)
	ksb.vec16(serverShare)
	shExts := []vfExt{svExt, {Type: extensionKeyShare, Body: ksb.b}}
	if psk != nil && s.SelectedPSK == nil {
		zero := uint16(0)
		s.SelectedPSK = &zero
	}
	if s.SelectedPSK != nil {
		shExts = append(shExts, vfExt{Type: extensionPreSharedKey, Body: []byte{byte(*s.SelectedPSK >> 8), byte(*s.SelectedPSK)}})
	}
	shExts = append(shExts, s.ExtraSHExts...)
	tr.Write(ch.original)
	sh := vsrvServerHello(legacy, random, sid, suiteID, s.Compression, shExts)
	if err := s.send(c, sh, true); err != nil {
		return err
	}
	if !s.HRR {
		if err := c.writeChangeCipherRecord(); err != nil {
			return err
		}
	}
	early := tls13.NewEarlySecret(suite.hash.New, psk)
	s.UsedPSK = psk != nil
	hsSecret := early.HandshakeSecret(shared)
	clientHS := hsSecret.ClientHandshakeTrafficSecret(tr)
	c.in.setTrafficSecret(suite, QUICEncryptionLevelHandshake, clientHS)
	serverHS := hsSecret.ServerHandshakeTrafficSecret(tr)
	c.out.setTrafficSecret(suite, QUICEncryptionLevelHandshake, serverHS)
	c.buffering = true

	// ---- EncryptedExtensions ----
	var alpn string
	if s.ALPN != nil {
		alpn = *s.ALPN
	} else if len(c.config.NextProtos) > 0 {
		for _, sp := range c.config.NextProtos {
			for _, cp := range ch.alpnProtocols {
				if sp == cp && alpn == "" {
					alpn = sp
				}
			}
		}
	}
	c.clientProtocol = alpn
	var eeExts []vfExt
	if alpn != "" {
		b := &vsrvB{}
		inner := &vsrvB{}
		inner.vec8([]byte(alpn))
		b.vec16(inner.b)
		eeExts = append(eeExts, vfExt{Type: extensionALPN, Body: b.b})
	}
	if s.ALPSCodepoint != 0 {
		if s.ALPSFirst {
			eeExts = append([]vfExt{{Type: s.ALPSCodepoint, Body: s.ALPSData}}, eeExts...)
		} else {
			eeExts = append(eeExts, vfExt{Type: s.ALPSCodepoint, Body: s.ALPSData})
		}
	}
	eeExts = append(eeExts, s.ExtraEEExts...)
	eb := &vsrvB{}
	eb.vec16(vsrvExts(eeExts))
	if err := s.send(c, vsrvMsg(typeEncryptedExtensions, eb.b), true); err != nil {
		return err
	}

	// ---- CertificateRequest / Certificate / CertificateVerify (not with a PSK) ----
	if psk == nil {
		if err := func() error {
			if s.CertRequest {
				cr := new(certificateRequestMsgTLS13)
				cr.supportedSignatureAlgorithms = supportedSignatureAlgorithms()
				raw, _ := cr.marshal()
				if err := s.send(c, raw, true); err != nil {
					return err
				}
			}
			cert := s.Cert
			if cert == nil {
				cert = &c.config.Certificates[0]
			}
			sigAlg, err := selectSignatureScheme(VersionTLS13, cert, ch.supportedSignatureAlgorithms)
			if err != nil {
				// fall back to what the key can do: the client's reaction is what is being tested
				algs := signatureSchemesForCertificate(VersionTLS13, cert)
				if len(algs) == 0 {
					return fmt.Errorf("vsrv: no signature scheme for certificate: %w", err)
				}
				sigAlg = algs[0]
			}
			certMsg := new(certificateMsgTLS13)
			certMsg.certificate = *cert
			certMsg.scts = ch.scts && len(cert.SignedCertificateTimestamps) > 0
			certMsg.ocspStapling = ch.ocspStapling && len(cert.OCSPStaple) > 0
			certRaw, err := certMsg.marshal()
			if err != nil {
				return err
			}
			if s.CertBody != nil {
				certRaw = vsrvMsg(typeCertificate, s.CertBody(certRaw[4:]))
			}
			if s.CompressAlg != 0 {
				compressed, declared := s.CompressFn(certRaw[4:])
				b := &vsrvB{}
				b.u16(s.CompressAlg)
				b.u24(int(declared))
				b.vec24(compressed)
				// RFC 8879 s4: the CompressedCertificate message itself goes into the transcript
				if err := s.send(c, vsrvMsg(utlsTypeCompressedCertificate, b.b), true); err != nil {
					return err
				}
			} else {
				if err := s.send(c, certRaw, true); err != nil {
					return err
				}
			}
			sigType, sigHash, err := typeAndHashFromSignatureScheme(sigAlg)
			if err != nil {
				return err
			}
			signed := signedMessage(sigHash, serverSignatureContext, tr)
			signOpts := crypto.SignerOpts(sigHash)
			if sigType == signatureRSAPSS {
				signOpts = &rsa.PSSOptions{SaltLength: rsa.PSSSaltLengthEqualsHash, Hash: sigHash}
			}
			sig, err := cert.PrivateKey.(crypto.Signer).Sign(rand.Reader, signed, signOpts)
			if err != nil {
				return err
			}
			cv := &vsrvB{}
			cv.u16(uint16(sigAlg))
			cv.vec16(sig)
			if err := s.send(c, vsrvMsg(typeCertificateVerify, cv.b), true); err != nil {
				return err
			}

			return nil
		}(); err != nil {
			return err
		}
	}
	// ---- Finished ----
	fin := suite.finishedHash(c.out.trafficSecret, tr)
	if err := s.send(c, vsrvMsg(typeFinished, fin), true); err != nil {
		return err
	}
	master := hsSecret.MasterSecret()
	clientApp := master.ClientApplicationTrafficSecret(tr)
	serverApp := master.ServerApplicationTrafficSecret(tr)
	c.out.setTrafficSecret(suite, QUICEncryptionLevelApplication, serverApp)
	c.ekm = suite.exportKeyingMaterial(master, tr)
	if _, err := c.flush(); err != nil {
		return err
	}

	// ---- client flight ----
	if s.ReadClientEE || s.ALPSCodepoint != 0 {
		msg, err := c.readHandshake(tr)
		if err != nil {
			s.logf("reading client EncryptedExtensions: %v", err)
			return fmt.Errorf("%w before its EncryptedExtensions: %v", errVsrvClientAbort, err)
		}
		cee, ok := msg.(*utlsClientEncryptedExtensionsMsg)
		if !ok {
			// the client sent no EncryptedExtensions; if this is its Finished handle it below
			if f, isFin := msg.(*finishedMsg); isFin {
				s.logf("client sent Finished without EncryptedExtensions")
				// msg was written into the transcript by readHandshake; the expected MAC must be computed before it:
				// recompute from scratch is impossible here, so report the situation
				_ = f
				return errors.New("vsrv: client sent no EncryptedExtensions although application settings were negotiated")
			}
			c.sendAlert(alertUnexpectedMessage)
			return fmt.Errorf("vsrv: expected client EncryptedExtensions, got %T", msg)
		}
		s.ClientEE = cee
	}
	if s.CertRequest {
		msg, err := c.readHandshake(tr)
		if err != nil {
			return fmt.Errorf("%w before its Certificate: %v", errVsrvClientAbort, err)
		}
		if cm, ok := msg.(*certificateMsgTLS13); !ok {
			return fmt.Errorf("vsrv: expected client Certificate, got %T", msg)
		} else if len(cm.certificate.Certificate) != 0 {
			if _, err := c.readHandshake(tr); err != nil { // CertificateVerify (not verified: not under test)
				return err
			}
		}
	}
	expected := suite.finishedHash(c.in.trafficSecret, tr)
	msg, err = c.readHandshake(nil)
	if err != nil {
		s.logf("reading client Finished: %v", err)
		return fmt.Errorf("%w before its Finished: %v", errVsrvClientAbort, err)
	}
	cfin, ok := msg.(*finishedMsg)
	if !ok {
		c.sendAlert(alertUnexpectedMessage)
		return fmt.Errorf("vsrv: expected client Finished, got %T", msg)
	}
	if !hmac.Equal(expected, cfin.verifyData) {
		c.sendAlert(alertDecryptError)
		return errors.New("vsrv: invalid client finished hash")
	}
	tr.Write(vsrvMsg(typeFinished, cfin.verifyData))
	c.in.setTrafficSecret(suite, QUICEncryptionLevelApplication, clientApp)
	c.resumptionSecret = master.ResumptionMasterSecret(tr)
	c.serverName = ch.serverName
	if s.SendTicket {
		c.ticketKeys = c.config.ticketKeys(nil)
		if err := c.sendSessionTicket(false, nil); err != nil {
			return err
		}
	}
	if _, err := c.flush(); err != nil {
		return err
	}
	c.isHandshakeComplete.Store(true)
	s.Completed = true
	return nil
}

var _ = binary.BigEndian
