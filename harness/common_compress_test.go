//go:build verif

package tls

import (
	"bytes"
	"compress/zlib"

	"github.com/andybalholm/brotli"
	"github.com/klauspost/compress/zstd"
)

// vfCompressCert compresses m with the given RFC 8879 algorithm (unknown algorithms: zlib bytes are sent).
func vfCompressCert(alg uint16, m []byte) []byte {
	var buf bytes.Buffer
	switch alg {
	case 2:
		w := brotli.NewWriter(&buf)
		w.Write(m)
		w.Close()
	case 3:
		w, _ := zstd.NewWriter(&buf)
		w.Write(m)
		w.Close()
	default:
		w := zlib.NewWriter(&buf)
		w.Write(m)
		w.Close()
	}
	return buf.Bytes()
}
