//go:build verif

package tls

// C26 (extension): reader and writer around a renegotiation. On a TLS 1.2 connection with Config.Renegotiation enabled
// the server's HelloRequest makes the READER goroutine rebuild the ClientHello and run a handshake while it holds the
// connection's input lock; concurrent Write / Handshake / HandshakeContext callers take the handshake mutex. Every call
// must still return within the I/O deadline (the Go server refuses the renegotiation, so the calls return errors: which
// ones is not judged here, only that they return). The harness owns the schedule: a harness-defined extension in the
// custom spec can delay the rebuild of the hello by a drawn time, which widens the window between "handshake marked
// incomplete" and "handshake runs"; delay 0 leaves the natural timing.

import (
	"context"
	"fmt"
	"io"
	"os"
	"sync"
	"sync/atomic"
	"testing"
	"time"

	"pgregory.net/rapid"
)

type vf26SlowExt struct {
	armed *atomic.Bool
	delay time.Duration
}

func (e *vf26SlowExt) writeToUConn(*UConn) error { return nil }
func (e *vf26SlowExt) Len() int {
	if e.armed.Load() && e.delay > 0 {
		time.Sleep(e.delay)
	}
	return 4
}
func (e *vf26SlowExt) Read(b []byte) (int, error) {
	if len(b) < 4 {
		return 0, io.ErrShortBuffer
	}
	b[0], b[1], b[2], b[3] = 0xfe, 0x77, 0, 0
	return 4, io.EOF
}

type vf26RenegCaseT struct {
	Delay   time.Duration
	Mode    RenegotiationSupport
	Callers []string        // "Write" | "Handshake" | "HandshakeContext"
	Starts  []time.Duration // start of each caller after the HelloRequest was sent
	Suite   uint16
}

func (c vf26RenegCaseT) String() string {
	return fmt.Sprintf("renegotiation=%d hello-rebuild-delay=%v callers=%v starts=%v suite=%04x", c.Mode, c.Delay, c.Callers, c.Starts, c.Suite)
}

func vf26RenegCase(c vf26RenegCaseT) (hang, slow string, results []string) {
	armed := &atomic.Bool{}
	spec := &ClientHelloSpec{TLSVersMin: VersionTLS12, TLSVersMax: VersionTLS12,
		CipherSuites: []uint16{c.Suite},
		Extensions: []TLSExtension{&SNIExtension{}, &ExtendedMasterSecretExtension{}, &RenegotiationInfoExtension{Renegotiation: c.Mode},
			&SupportedCurvesExtension{Curves: []CurveID{X25519, CurveP256}}, &SupportedPointsExtension{SupportedPoints: []byte{0}},
			&SignatureAlgorithmsExtension{SupportedSignatureAlgorithms: []SignatureScheme{ECDSAWithP256AndSHA256, PSSWithSHA256, PKCS1WithSHA256}},
			&vf26SlowExt{armed: armed, delay: c.Delay}}}
	cp, sp := vfPipe()
	ccfg := vfClientConfig("reneg.c26.test")
	ccfg.Renegotiation = c.Mode
	uc := UClient(cp, ccfg, HelloCustom)
	if err := uc.ApplyPreset(spec); err != nil {
		return "", "", []string{"preset: " + err.Error()}
	}
	scfg := vfServerConfig("ecdsa", "reneg.c26.test")
	scfg.MaxVersion = VersionTLS12
	srv := Server(sp, scfg)
	pair := &vfPair{CP: cp, SP: sp, Cli: uc, Srv: srv}
	if cerr, serr := pair.Handshake(); cerr != nil || serr != nil {
		pair.Close()
		return "", "", []string{fmt.Sprintf("handshake: %v / %v", cerr, serr)}
	}
	if err := pair.Echo([]byte("before"), []byte("BEFORE")); err != nil {
		pair.Close()
		return "", "", []string{"echo: " + err.Error()}
	}
	dl := time.Now().Add(vf26IODeadline)
	cp.SetDeadline(dl)
	sp.SetDeadline(dl)
	results = make([]string, len(c.Callers)+1)
	var wg sync.WaitGroup
	wg.Add(1)
	go func() { // the reader
		defer wg.Done()
		buf := make([]byte, 256)
		n := 0
		for {
			k, err := uc.Read(buf)
			n += k
			if err != nil {
				results[0] = fmt.Sprintf("Read: %d bytes, %v", n, err)
				return
			}
		}
	}()
	// the server: HelloRequest, then whatever the client answers is read (and refused) by the Go server
	armed.Store(true)
	srv.out.Lock()
	_, werr := srv.writeRecordLocked(recordTypeHandshake, []byte{typeHelloRequest, 0, 0, 0})
	srv.out.Unlock()
	sent := time.Now()
	srvDone := make(chan struct{})
	go func() {
		defer close(srvDone)
		if werr == nil {
			buf := make([]byte, 256)
			for {
				if _, err := srv.Read(buf); err != nil {
					break
				}
			}
		}
		sp.Close()
	}()
	for i, kind := range c.Callers {
		wg.Add(1)
		go func(i int, kind string) {
			defer wg.Done()
			if d := time.Until(sent.Add(c.Starts[i])); d > 0 {
				time.Sleep(d)
			}
			var err error
			switch kind {
			case "Write":
				_, err = uc.Write([]byte("during the renegotiation"))
			case "Handshake":
				err = uc.Handshake()
			default:
				err = uc.HandshakeContext(context.Background())
			}
			results[i+1] = fmt.Sprintf("%s: %v", kind, err)
		}(i, kind)
	}
	done := make(chan struct{})
	go func() { wg.Wait(); close(done) }()
	prev := vf26ActorMarker
	vf26ActorMarker = "vf26RenegCase.func"
	hang, slow = vf26Watch(done, time.Until(dl)+vf26HangGrace)
	vf26ActorMarker = prev
	if hang == "" && slow == "" {
		<-srvDone
		uc.Close()
	}
	cp.Close()
	sp.Close()
	return hang, slow, results
}

func TestVerifC26Renegotiation(t *testing.T) {
	st := vfNewStats(t, "C26")
	run := func(tt vfFataler, c vf26RenegCaseT) {
		st.Eval()
		fmt.Fprintf(os.Stderr, "vf26-reneg-case %s\n", c)
		hang, slow, results := vf26RenegCase(c)
		if hang != "" {
			st.Violation(vf26HardFail{}, "HANG around a renegotiation: %s\ncase: %s", hang, c)
		}
		if slow != "" {
			vf26Inconclusive(st, slow+"\ncase: "+c.String())
		}
		st.Class(fmt.Sprintf("reneg:delay=%v", c.Delay))
		st.Class(fmt.Sprintf("reneg:callers=%d", len(c.Callers)))
		st.NonTrivial("reneg|" + c.String())
		st.Sample(map[string]any{"case": c.String(), "results": results})
	}
	// directed: the widened window with one caller of each kind starting inside it
	for _, kind := range []string{"Write", "Handshake", "HandshakeContext"} {
		run(t, vf26RenegCaseT{Delay: 150 * time.Millisecond, Mode: RenegotiateFreelyAsClient, Callers: []string{kind}, Starts: []time.Duration{50 * time.Millisecond}, Suite: TLS_ECDHE_ECDSA_WITH_AES_128_GCM_SHA256})
	}
	run(t, vf26RenegCaseT{Delay: 100 * time.Millisecond, Mode: RenegotiateOnceAsClient, Callers: []string{"Write", "Handshake"}, Starts: []time.Duration{30 * time.Millisecond, 60 * time.Millisecond}, Suite: TLS_ECDHE_ECDSA_WITH_CHACHA20_POLY1305_SHA256})
	rapid.Check(t, func(rt *rapid.T) {
		c := vf26RenegCaseT{
			Delay: rapid.SampledFrom([]time.Duration{0, 0, time.Millisecond, 20 * time.Millisecond, 80 * time.Millisecond}).Draw(rt, "delay"),
			Mode:  rapid.SampledFrom([]RenegotiationSupport{RenegotiateOnceAsClient, RenegotiateFreelyAsClient}).Draw(rt, "mode"),
			Suite: rapid.SampledFrom([]uint16{TLS_ECDHE_ECDSA_WITH_AES_128_GCM_SHA256, TLS_ECDHE_ECDSA_WITH_CHACHA20_POLY1305_SHA256, TLS_ECDHE_ECDSA_WITH_AES_128_CBC_SHA}).Draw(rt, "suite"),
		}
		n := rapid.IntRange(1, 3).Draw(rt, "callers")
		for i := 0; i < n; i++ {
			c.Callers = append(c.Callers, rapid.SampledFrom([]string{"Write", "Write", "Handshake", "HandshakeContext"}).Draw(rt, fmt.Sprintf("caller%d", i)))
			max := int(c.Delay/time.Microsecond) + 3000
			c.Starts = append(c.Starts, time.Duration(rapid.IntRange(0, max).Draw(rt, fmt.Sprintf("start%d_us", i)))*time.Microsecond)
		}
		run(rt, c)
	})
}
