//go:build verif

package tls

// C05 - padding makes the ClientHello length follow the declared padding policy.
//
// U = length of the handshake message (4-byte header included, as BoringSSL and BoringPaddingStyle count it) without
// the padding extension, measured on the wire bytes by the reference parser.
// BoringSSL policy (ssl/extensions.cc, ext_padding): 255 < U < 512 => pad to 512 in total, but never less than one
// byte of padding data (so 512-U < 5 gives a 5-byte extension); otherwise no padding extension.
//
// Sources: (1) deterministic sweep of custom specs (HelloCustom + ApplyPreset) with a size-tunable GenericExtension so
// that U takes every value in [180,700], three layouts; (2) every parrot whose spec carries a padding extension x SNI
// length 0..255 x ALPN / session-ticket variants; randomized TLS 1.3 specs; (3) fingerprinted padded captures
// (Boring-style and arbitrary padding lengths) re-applied with another SNI of the same length.

import (
	"fmt"
	"testing"

	"pgregory.net/rapid"
)

// vf05Judge applies the policy to one wire hello. Returns U, whether it is padded, and a failure text ("" = fine).
func vf05Judge(raw []byte) (u int, padded bool, fail string) {
	h := vfParseClientHello(raw)
	if len(h.Violations) > 0 {
		// includes: padding extension twice, non-zero padding byte
		return 0, false, fmt.Sprintf("hello does not parse cleanly: %v", h.Violations)
	}
	u = vfUnpaddedLen(h)
	pad := h.Ext(21)
	n := 0
	for _, e := range h.Exts {
		if e.Type == 21 {
			n++
		}
	}
	if n > 1 {
		return u, true, "padding extension appears more than once"
	}
	if u > 255 && u < 512 {
		if pad == nil {
			return u, false, fmt.Sprintf("U=%d lies in (255,512) but the hello carries no padding extension (total %d)", u, len(raw))
		}
		for _, b := range pad.Body {
			if b != 0 {
				return u, true, "padding body is not all zero"
			}
		}
		if 512-u >= 5 {
			if len(raw) != 512 {
				return u, true, fmt.Sprintf("U=%d: total length %d, want exactly 512 (padding body %d bytes)", u, len(raw), len(pad.Body))
			}
		} else if len(pad.Body) != 1 {
			return u, true, fmt.Sprintf("U=%d (fewer than 5 bytes missing): padding body has %d bytes, want 1", u, len(pad.Body))
		}
		return u, true, ""
	}
	if pad != nil {
		return u, true, fmt.Sprintf("U=%d lies outside (255,512) but the hello carries a padding extension of %d body bytes (total %d)", u, len(pad.Body), len(raw))
	}
	return u, false, ""
}

func vf05NearBoundary(u int) bool {
	for _, b := range []int{255, 256, 507, 512} {
		if u >= b-8 && u <= b+8 {
			return true
		}
	}
	return false
}

// ---- custom specs for the sweep ----

const vf05GenericID = 0xfff0

// vf05Layout builds a spec of the given layout with an n-byte generic extension and the given padding extension.
func vf05Layout(layout, n int, pad *UtlsPaddingExtension) *ClientHelloSpec {
	gen := &GenericExtension{Id: vf05GenericID, Data: make([]byte, n)}
	for i := range gen.Data {
		gen.Data[i] = byte(i*7 + 1)
	}
	groups := &SupportedCurvesExtension{Curves: []CurveID{X25519, CurveP256}}
	sig := &SignatureAlgorithmsExtension{SupportedSignatureAlgorithms: []SignatureScheme{ECDSAWithP256AndSHA256, PSSWithSHA256, PKCS1WithSHA256}}
	switch layout {
	case 0: // TLS 1.2 style, padding last
		return &ClientHelloSpec{TLSVersMin: VersionTLS10, TLSVersMax: VersionTLS12,
			CipherSuites: []uint16{TLS_ECDHE_ECDSA_WITH_AES_128_GCM_SHA256, TLS_ECDHE_RSA_WITH_AES_128_GCM_SHA256, TLS_RSA_WITH_AES_128_CBC_SHA},
			Extensions: []TLSExtension{&SNIExtension{}, &ExtendedMasterSecretExtension{}, &RenegotiationInfoExtension{Renegotiation: RenegotiateOnceAsClient},
				groups, &SupportedPointsExtension{SupportedPoints: []byte{0}}, sig, gen, pad}}
	case 1: // padding in the middle, generic last
		return &ClientHelloSpec{TLSVersMin: VersionTLS10, TLSVersMax: VersionTLS12,
			CipherSuites: []uint16{TLS_ECDHE_RSA_WITH_AES_128_GCM_SHA256, TLS_RSA_WITH_AES_128_CBC_SHA},
			Extensions:   []TLSExtension{&SNIExtension{}, groups, pad, sig, &StatusRequestExtension{}, gen}}
	default: // TLS 1.3 with key share, padding first
		return &ClientHelloSpec{TLSVersMin: VersionTLS12, TLSVersMax: VersionTLS13,
			CipherSuites: []uint16{TLS_AES_128_GCM_SHA256, TLS_ECDHE_RSA_WITH_AES_128_GCM_SHA256},
			Extensions: []TLSExtension{pad, &SNIExtension{}, groups, sig, &KeyShareExtension{KeyShares: []KeyShare{{Group: X25519}}},
				&SupportedVersionsExtension{Versions: []uint16{VersionTLS13, VersionTLS12}}, gen}}
	}
}

func vf05BuildCustom(spec *ClientHelloSpec, name string, stream uint64) ([]byte, error) {
	cp, sp := vfPipe()
	defer cp.Close()
	defer sp.Close()
	cfg := &Config{ServerName: name, Rand: vfNewDetRand(stream, "c05"), OmitEmptyPsk: true}
	if name == "" {
		cfg.InsecureSkipVerify = true
	}
	c := UClient(cp, cfg, HelloCustom)
	if err := c.ApplyPreset(spec); err != nil {
		return nil, err
	}
	if err := c.BuildHandshakeState(); err != nil {
		return nil, err
	}
	return c.HandshakeState.Hello.Raw, nil
}

func vf05BuildID(id ClientHelloID, name string, stream uint64) ([]byte, error) {
	cp, sp := vfPipe()
	defer cp.Close()
	defer sp.Close()
	cfg := &Config{ServerName: name, Rand: vfNewDetRand(stream, "c05"), OmitEmptyPsk: true}
	if name == "" {
		cfg.InsecureSkipVerify = true
	}
	c := UClient(cp, cfg, id)
	if err := c.BuildHandshakeState(); err != nil {
		return nil, err
	}
	return c.HandshakeState.Hello.Raw, nil
}

// (1) the sweep: U takes every value in [180,700] (layout 0 and 1; layout 2 from its base size on).
func TestVerifC05Sweep(t *testing.T) {
	st := vfNewStats(t, "C05")
	const name = "sweep.test"
	covered := map[int]bool{}
	for layout := 0; layout < 3; layout++ {
		raw0, err := vf05BuildCustom(vf05Layout(layout, 0, &UtlsPaddingExtension{GetPaddingLen: BoringPaddingStyle}), name, 1)
		if err != nil {
			t.Fatalf("layout %d: %v", layout, err)
		}
		base, _, fail := vf05Judge(raw0)
		if fail != "" {
			st.Violation(t, "layout %d base hello: %s", layout, fail)
		}
		if layout < 2 && base > 180 {
			t.Fatalf("harness: base size of layout %d is %d > 180", layout, base)
		}
		for target := 180; target <= 700; target++ {
			if target < base {
				continue
			}
			raw, err := vf05BuildCustom(vf05Layout(layout, target-base, &UtlsPaddingExtension{GetPaddingLen: BoringPaddingStyle}), name, uint64(target))
			if err != nil {
				st.Violation(t, "layout %d U=%d: build failed: %v", layout, target, err)
			}
			u, padded, fail := vf05Judge(raw)
			st.Eval()
			if u != target {
				t.Fatalf("harness: layout %d wanted U=%d, got %d", layout, target, u)
			}
			if fail != "" {
				st.Violation(t, "custom spec layout %d: %s", layout, fail)
			}
			covered[u] = true
			st.Class(fmt.Sprintf("sweep:layout%d", layout))
			if padded {
				st.Class("sweep:padded")
			}
			if padded || vf05NearBoundary(u) {
				st.NonTrivial(fmt.Sprintf("sweep:%d:%d", layout, u))
			}
			if u == 255 || u == 256 || u == 507 || u == 508 || u == 511 || u == 512 {
				st.Sample(map[string]any{"layout": layout, "U": u, "total": len(raw), "padded": padded})
			}
		}
	}
	for u := 180; u <= 700; u++ {
		if !covered[u] {
			t.Fatalf("harness: U=%d not covered by the sweep", u)
		}
	}
	st.Extra("sweep_U_range", "every U in [180,700], 3 layouts")
}

// ---- (2) parrots ----

func vf05HasPadding(spec *ClientHelloSpec) bool {
	for _, e := range spec.Extensions {
		if _, ok := e.(*UtlsPaddingExtension); ok {
			return true
		}
	}
	return false
}

var vf05ALPNVariants = []string{"as-is", "alpn-long", "alpn-removed", "ticket"}

// vf05ParrotHello builds the hello of a parrot under a variant: 0 = through the ClientHelloID; 1 = ALPN list
// replaced by a longer one; 2 = ALPN extension removed; 3 = non-empty session ticket of tlen bytes.
func vf05ParrotHello(p vfParrot, variant int, name string, tlen int, stream uint64) (raw []byte, applied bool, err error) {
	if variant == 0 {
		raw, err = vf05BuildID(p.ID, name, stream)
		return raw, true, err
	}
	spec, err := UTLSIdToSpec(p.ID)
	if err != nil {
		return nil, false, err
	}
	var exts []TLSExtension
	for _, e := range spec.Extensions {
		switch x := e.(type) {
		case *ALPNExtension:
			if variant == 1 {
				x.AlpnProtocols = []string{"h2", "http/1.1", "spdy/3.1", "http/1.0", "h2c", "a-rather-long-protocol-name/1"}
				applied = true
			}
			if variant == 2 {
				applied = true
				continue
			}
		case *ApplicationSettingsExtension:
			if variant == 2 {
				continue // ALPS without ALPN would be inconsistent
			}
		case *ApplicationSettingsExtensionNew:
			if variant == 2 {
				continue
			}
		case *SessionTicketExtension:
			if variant == 3 {
				x.Ticket = make([]byte, tlen)
				for i := range x.Ticket {
					x.Ticket[i] = byte(i + 1)
				}
				x.Initialized = true
				applied = true
			}
		}
		exts = append(exts, e)
	}
	spec.Extensions = exts
	if !applied {
		return nil, false, nil
	}
	raw, err = vf05BuildCustom(&spec, name, stream)
	return raw, true, err
}

func vf05PaddedParrots(t *testing.T) []vfParrot {
	var out []vfParrot
	for _, p := range vfParrots {
		spec, err := UTLSIdToSpec(p.ID)
		if err != nil {
			t.Fatalf("UTLSIdToSpec(%s): %v", p.Name, err)
		}
		if vf05HasPadding(&spec) {
			out = append(out, p)
		}
	}
	return out
}

func vf05Name(n int, fill byte) string { return vfDNSNameOfLen(n, fill) }

// every parrot with a padding extension x every SNI length 0..255 x every variant
func TestVerifC05Parrots(t *testing.T) {
	st := vfNewStats(t, "C05")
	parrots := vf05PaddedParrots(t)
	names := []string{}
	for _, p := range parrots {
		names = append(names, p.Name)
	}
	st.Extra("parrots_with_padding_extension", names)
	if len(parrots) < 10 {
		t.Fatalf("harness: only %d parrots with a padding extension found", len(parrots))
	}
	for pi, p := range parrots {
		for n := 0; n <= 255; n++ {
			for _, variant := range []int{0, 1, 2, 3} {
				raw, applied, err := vf05ParrotHello(p, variant, vf05Name(n, 'a'), (n*5+pi)%200+1, uint64(n*64+pi))
				if err != nil {
					st.Violation(t, "%s variant %s SNI length %d: build failed: %v", p.Name, vf05ALPNVariants[variant], n, err)
				}
				if !applied { // the parrot has no ALPN / session ticket extension: fall back to the plain ID
					variant = 0
					raw, _, err = vf05ParrotHello(p, 0, vf05Name(n, 'a'), 0, uint64(n*64+pi))
					if err != nil {
						st.Violation(t, "%s SNI length %d: build failed: %v", p.Name, n, err)
					}
				}
				u, padded, fail := vf05Judge(raw)
				st.Eval()
				if fail != "" {
					st.Violation(t, "%s variant %s SNI length %d: %s", p.Name, vf05ALPNVariants[variant], n, fail)
				}
				st.Class("parrot:" + vf05ALPNVariants[variant])
				switch {
				case padded:
					st.Class("parrot:padded")
				case u <= 255:
					st.Class("parrot:unpadded-short")
				default:
					st.Class("parrot:unpadded-long")
				}
				if padded || vf05NearBoundary(u) {
					st.NonTrivial(fmt.Sprintf("parrot:%s:%d:%d", p.Name, variant, u))
				}
				if n == 0 || n == 255 {
					st.Sample(map[string]any{"parrot": p.Name, "variant": vf05ALPNVariants[variant], "sni_len": n, "U": u, "total": len(raw), "padded": padded})
				}
			}
		}
	}
}

// drawn combinations, including randomized TLS 1.3 specs (which always carry the padding extension)
func TestVerifC05Drawn(t *testing.T) {
	st := vfNewStats(t, "C05")
	parrots := vf05PaddedParrots(t)
	rapid.Check(t, func(rt *rapid.T) {
		n := rapid.IntRange(0, 255).Draw(rt, "sni_len")
		fill := byte('a' + rapid.IntRange(0, 25).Draw(rt, "fill"))
		stream := rapid.Uint64().Draw(rt, "stream")
		var raw []byte
		var err error
		var what string
		if rapid.IntRange(0, 3).Draw(rt, "src") == 0 {
			id := []ClientHelloID{HelloRandomized, HelloRandomizedALPN, HelloRandomizedNoALPN}[rapid.IntRange(0, 2).Draw(rt, "variant")]
			var seed PRNGSeed
			copy(seed[:], rapid.SliceOfN(rapid.Byte(), 32, 32).Draw(rt, "seed"))
			w := DefaultWeights
			w.TLSVersMax_Set_VersionTLS13 = 1
			id.Seed, id.Weights = &seed, &w
			what = "randomized-tls13"
			raw, err = vf05BuildID(id, vf05Name(n, fill), stream)
		} else {
			p := parrots[rapid.IntRange(0, len(parrots)-1).Draw(rt, "parrot")]
			variant := rapid.IntRange(0, 3).Draw(rt, "pvariant")
			tlen := rapid.IntRange(1, 300).Draw(rt, "ticket_len")
			var applied bool
			raw, applied, err = vf05ParrotHello(p, variant, vf05Name(n, fill), tlen, stream)
			if err == nil && !applied {
				variant = 0
				raw, _, err = vf05ParrotHello(p, 0, vf05Name(n, fill), 0, stream)
			}
			what = p.Name + "/" + vf05ALPNVariants[variant]
		}
		if err != nil {
			st.Violation(rt, "%s SNI length %d: build failed: %v", what, n, err)
		}
		u, padded, fail := vf05Judge(raw)
		st.Eval()
		if fail != "" {
			st.Violation(rt, "%s SNI length %d: %s", what, n, fail)
		}
		if what == "randomized-tls13" {
			st.Class("drawn:randomized-tls13")
		} else {
			st.Class("drawn:parrot")
		}
		if padded {
			st.Class("drawn:padded")
		}
		if padded || vf05NearBoundary(u) {
			st.NonTrivial(fmt.Sprintf("drawn:%s:%d", what, u))
		}
	})
}

// ---- (3) fingerprinted padded captures ----

func vf05Record(msg []byte) []byte {
	return append([]byte{22, 3, 1, byte(len(msg) >> 8), byte(len(msg))}, msg...)
}

// vf05Reapply fingerprints the capture and builds a new hello from the fingerprint with another server name of the
// same length and another random stream. Returns "" or the failure.
// vf05WithSessionIDLen rewrites the legacy_session_id of a captured ClientHello message to n bytes (TLS 1.2-era
// browsers send none, resuming ones send 32, some stacks 16): the capture stays a valid hello of another total length.
func vf05WithSessionIDLen(capture []byte, n int) []byte {
	if len(capture) < 39 || n < 0 || n > 32 {
		return capture
	}
	old := int(capture[38])
	if len(capture) < 39+old {
		return capture
	}
	out := append([]byte(nil), capture[:38]...)
	out = append(out, byte(n))
	for i := 0; i < n; i++ {
		out = append(out, byte(0xa0+i))
	}
	out = append(out, capture[39+old:]...)
	l := len(out) - 4
	out[1], out[2], out[3] = byte(l>>16), byte(l>>8), byte(l)
	return out
}

func vf05Reapply(capture []byte, blunt bool, stream uint64) (fail string, skipped string) {
	return vf05ReapplyOpt(capture, blunt, false, stream)
}

func vf05ReapplyOpt(capture []byte, blunt, alwaysAdd bool, stream uint64) (fail string, skipped string) {
	hc := vfParseClientHello(capture)
	if len(hc.Violations) > 0 {
		return fmt.Sprintf("capture does not parse: %v", hc.Violations), ""
	}
	pad := hc.Ext(21)
	if pad == nil || len(pad.Body) == 0 {
		return "", "capture-without-non-empty-padding"
	}
	sni, hasSNI := hc.SNI()
	spec, err := (&Fingerprinter{AllowBluntMimicry: blunt, AlwaysAddPadding: alwaysAdd}).FingerprintClientHello(vf05Record(capture))
	if err != nil {
		return "", "fingerprint-error: " + err.Error()
	}
	name := ""
	if hasSNI {
		name = vfDNSNameOfLen(len(sni), 'z')
	}
	raw, err := vf05BuildCustom(spec, name, stream)
	if err != nil {
		return fmt.Sprintf("re-applying the fingerprint failed: %v", err), ""
	}
	h := vfParseClientHello(raw)
	if len(h.Violations) > 0 {
		return fmt.Sprintf("hello from the fingerprint does not parse: %v", h.Violations), ""
	}
	if vfUnpaddedLen(h) != vfUnpaddedLen(hc) {
		// utls always sends a 32-byte legacy session id: a capture with a shorter one comes back 32-n bytes longer before
		// padding, and "reproduces the captured total length" then means the padding absorbs the difference - as long
		// as at least 5 bytes (header + 1) are missing to the captured total
		d := 32 - len(hc.SessionID)
		if gap := len(capture) - vfUnpaddedLen(h); d > 0 && vfUnpaddedLen(h)-vfUnpaddedLen(hc) == d && gap >= 5 {
			if len(raw) != len(capture) {
				return fmt.Sprintf("capture of %d bytes with a %d-byte session id (U=%d, padding body %d) is reproduced with %d bytes (U=%d): the padding does not absorb the longer session id",
					len(capture), len(hc.SessionID), vfUnpaddedLen(hc), len(pad.Body), len(raw), vfUnpaddedLen(h)), ""
			}
			return "", ""
		}
		// not a padding matter (something else changed size): outside this property
		return "", fmt.Sprintf("unpadded-length-differs")
	}
	if len(raw) != len(capture) {
		p2 := -1
		if e := h.Ext(21); e != nil {
			p2 = len(e.Body)
		}
		return fmt.Sprintf("capture of %d bytes (U=%d, padding body %d) is reproduced with %d bytes (padding body %d)", len(capture), vfUnpaddedLen(hc), len(pad.Body), len(raw), p2), ""
	}
	return "", ""
}

func TestVerifC05Fingerprinted(t *testing.T) {
	st := vfNewStats(t, "C05")
	run := func(tt vfFataler, what string, capture []byte, blunt bool, stream uint64) {
		fail, skipped := vf05Reapply(capture, blunt, stream)
		st.Eval()
		if skipped != "" {
			st.Class("fp-skipped:" + skipped)
			return
		}
		if fail != "" {
			st.Violation(tt, "%s: %s", what, fail)
		}
		st.Class("fp:" + what)
		st.NonTrivial(fmt.Sprintf("fp:%s:%d", what, len(capture)))
	}
	// (a) Boring-padded custom captures: every padded U of the sweep (layout 0 and 2)
	for _, layout := range []int{0, 2} {
		raw0, err := vf05BuildCustom(vf05Layout(layout, 0, &UtlsPaddingExtension{GetPaddingLen: BoringPaddingStyle}), "capture.test", 1)
		if err != nil {
			t.Fatal(err)
		}
		base := vfUnpaddedLen(vfParseClientHello(raw0))
		for u := 256; u <= 511; u++ {
			raw, err := vf05BuildCustom(vf05Layout(layout, u-base, &UtlsPaddingExtension{GetPaddingLen: BoringPaddingStyle}), "capture.test", uint64(u))
			if err != nil {
				t.Fatal(err)
			}
			run(t, "boring-custom", raw, true, uint64(u)+5000)
		}
	}
	// (b) captures with an arbitrary (non-Boring) padding length P >= 1 at arbitrary U
	for i := 0; i < 400; i++ {
		p := 1 + (i*7)%300
		if i < 12 {
			p = i + 1
		}
		n := (i * 13) % 450
		raw, err := vf05BuildCustom(vf05Layout(i%3, n, &UtlsPaddingExtension{PaddingLen: p, WillPad: true}), vfDNSNameOfLen(1+i%60, 'c'), uint64(i))
		if err != nil {
			t.Fatal(err)
		}
		if e := vfParseClientHello(raw).Ext(21); e == nil || len(e.Body) != p {
			t.Fatalf("harness: fixed padding of %d bytes not on the wire", p)
		}
		run(t, "fixed-length-custom", raw, true, uint64(i)+9000)
	}
	// (c) padded parrot captures (no unknown extensions: plain Fingerprinter)
	for pi, p := range vf05PaddedParrots(t) {
		for _, n := range []int{1, 2, 7, 16, 40, 63, 100, 200} {
			raw, err := vf05BuildID(p.ID, vfDNSNameOfLen(n, 'a'), uint64(pi*1000+n))
			if err != nil {
				st.Violation(t, "%s: %v", p.Name, err)
			}
			run(t, "parrot", raw, false, uint64(pi*1000+n)+777)
			// the same capture as a client without (or with a shorter) legacy session id would have sent it
			if n == 16 || n == 100 {
				for _, sl := range []int{0, 16} {
					run(t, fmt.Sprintf("parrot-sessionid-%d", sl), vf05WithSessionIDLen(raw, sl), false, uint64(pi*1000+n)+778)
				}
			}
		}
	}
	// (d) drawn
	rapid.Check(t, func(rt *rapid.T) {
		layout := rapid.IntRange(0, 2).Draw(rt, "layout")
		n := rapid.IntRange(0, 420).Draw(rt, "generic_len")
		sl := rapid.IntRange(1, 120).Draw(rt, "sni_len")
		var pad *UtlsPaddingExtension
		what := "drawn-boring"
		if rapid.Bool().Draw(rt, "fixed") {
			pad = &UtlsPaddingExtension{PaddingLen: rapid.IntRange(1, 600).Draw(rt, "pad_len"), WillPad: true}
			what = "drawn-fixed-length"
		} else {
			pad = &UtlsPaddingExtension{GetPaddingLen: BoringPaddingStyle}
		}
		raw, err := vf05BuildCustom(vf05Layout(layout, n, pad), vfDNSNameOfLen(sl, 'q'), rapid.Uint64().Draw(rt, "s1"))
		if err != nil {
			st.Violation(rt, "capture build failed: %v", err)
		}
		if sl := rapid.SampledFrom([]int{32, 32, 0, 0, 16, 1, 31}).Draw(rt, "capture_session_id_len"); sl != 32 {
			raw = vf05WithSessionIDLen(raw, sl)
			what += fmt.Sprintf("-sessionid-%d", sl)
		}
		run(rt, what, raw, true, rapid.Uint64().Draw(rt, "s2"))
	})
}

// The padding extension is never duplicated: a spec that lists it twice must be refused (or emit it once), and
// Fingerprinter.AlwaysAddPadding must not add a second one to a padded capture (nor disturb the captured length); on an
// unpadded capture it adds BoringSSL-style padding, which is then judged by the policy.
func TestVerifC05NoDuplicate(t *testing.T) {
	st := vfNewStats(t, "C05")
	for layout := 0; layout < 3; layout++ {
		for _, n := range []int{0, 100, 200, 400} {
			for kind := 0; kind < 3; kind++ {
				mk := func(second bool) *UtlsPaddingExtension {
					if kind == 0 || (kind == 2 && second) {
						return &UtlsPaddingExtension{GetPaddingLen: BoringPaddingStyle}
					}
					return &UtlsPaddingExtension{PaddingLen: 7 + n%50, WillPad: true}
				}
				spec := vf05Layout(layout, n, mk(false))
				spec.Extensions = append(spec.Extensions, mk(true))
				raw, err := vf05BuildCustom(spec, "dup.test", uint64(n))
				st.Eval()
				st.Class("dup:spec-with-two-padding-extensions")
				st.NonTrivial(fmt.Sprintf("dup:%d:%d:%d", layout, n, kind))
				if err != nil {
					continue // refused: fine
				}
				h := vfParseClientHello(raw)
				cnt := 0
				for _, e := range h.Exts {
					if e.Type == 21 {
						cnt++
					}
				}
				if len(h.Violations) > 0 || cnt > 1 {
					st.Violation(t, "spec with two padding extensions (kind %d) was accepted and gives %d padding extensions on the wire; parser: %v", kind, cnt, h.Violations)
				}
			}
		}
	}
	for i := 0; i < 300; i++ {
		layout := i % 3
		n := (i * 11) % 500
		var pad *UtlsPaddingExtension
		switch i % 3 {
		case 0:
			pad = &UtlsPaddingExtension{GetPaddingLen: BoringPaddingStyle}
		case 1:
			pad = &UtlsPaddingExtension{PaddingLen: 1 + (i*5)%200, WillPad: true}
		default:
			pad = &UtlsPaddingExtension{} // WillPad false: no padding on the wire
		}
		capture, err := vf05BuildCustom(vf05Layout(layout, n, pad), vfDNSNameOfLen(3+i%40, 'd'), uint64(i))
		if err != nil {
			t.Fatal(err)
		}
		hc := vfParseClientHello(capture)
		st.Eval()
		if e := hc.Ext(21); e != nil && len(e.Body) > 0 {
			fail, skipped := vf05ReapplyOpt(capture, true, true, uint64(i)+31337)
			if skipped != "" {
				st.Class("fp-skipped:" + skipped)
				continue
			}
			if fail != "" {
				st.Violation(t, "AlwaysAddPadding on a padded capture: %s", fail)
			}
			st.Class("dup:always-add-on-padded-capture")
			st.NonTrivial(fmt.Sprintf("dup:aap:%d", i))
			continue
		}
		if hc.Ext(21) != nil {
			st.Class("fp-skipped:capture-with-empty-padding")
			continue
		}
		spec, err := (&Fingerprinter{AllowBluntMimicry: true, AlwaysAddPadding: true}).FingerprintClientHello(vf05Record(capture))
		if err != nil {
			st.Class("fp-skipped:fingerprint-error")
			continue
		}
		sni, _ := hc.SNI()
		raw, err := vf05BuildCustom(spec, vfDNSNameOfLen(len(sni), 'y'), uint64(i)+4242)
		if err != nil {
			st.Violation(t, "AlwaysAddPadding on an unpadded capture: re-applying failed: %v", err)
		}
		if _, _, fail := vf05Judge(raw); fail != "" {
			st.Violation(t, "AlwaysAddPadding on an unpadded capture (U=%d): %s", vfUnpaddedLen(hc), fail)
		}
		st.Class("dup:always-add-on-unpadded-capture")
		st.NonTrivial(fmt.Sprintf("dup:aau:%d", i))
	}
}
