//go:build verif

package tls

// C18 - key shares are fresh, correctly sized, and backed by the matching private key.

import (
	"bytes"
	"encoding/hex"
	"fmt"
	"io"
	"testing"

	"pgregory.net/rapid"
)

// groups upstream's server can be pinned to (the "compliant server" of this check)
var vf18ServerGroups = []uint16{0x001d, 0x0017, 0x0018, 0x0019, vfGroupX25519MLKEM768}

// Whichever offered share the server selects, the handshake completes and both sides derive the same secret.
func TestVerifC18ServerSelectsEachShare(t *testing.T) {
	st := vfNewStats(t, "C18")
	rapid.Check(t, func(rt *rapid.T) {
		src := vfGenTLS13Src(rt)
		if alt, ok := vf18HybridCaptureSrc(rt); ok {
			src = alt
		} else if rapid.IntRange(0, 5).Draw(rt, "keyshare_weights") == 0 {
			// randomized specs with the weights that shape key_share set by the application (the documented legacy
			// switch FirstKeyShare_Set_CurveP256 included): the corner where several coins decide about one group
			src = vfGenRandomizedID(rt, "ksw")
			w := *src.ID.Weights
			w.TLSVersMax_Set_VersionTLS13 = 1
			w.FirstKeyShare_Set_CurveP256 = rapid.SampledFrom([]float64{1, 1, 0.5}).Draw(rt, "ksw_firstp256")
			w.KeyShare_Append_RandomGroups = rapid.SampledFrom([]float64{1, 1, 0.5, 0}).Draw(rt, "ksw_append")
			w.CurveIDs_Append_X25519 = rapid.SampledFrom([]float64{0, 1, 0.5}).Draw(rt, "ksw_x25519")
			src.ID.Weights = &w
			src.Name += fmt.Sprintf("+keyshare-weights(first-p256=%.1f,append=%.1f,x25519=%.1f)", w.FirstKeyShare_Set_CurveP256, w.KeyShare_Append_RandomGroups, w.CurveIDs_Append_X25519)
			st.Class("randomized:key-share-weights-set")
		}
		sni := vfGenDNSName(rt, "sni")
		probe, err := vfPrepareClient(src, sni, 1, nil)
		if err != nil {
			st.Violation(rt, "%s: %v", src, err)
		}
		probe.CP.Close()
		var groups, scripted []uint16
		for _, ks := range probe.Offer.Hello.KeyShares() {
			if vfIsGREASE(ks.Group) {
				continue
			}
			if !vfContains16(probe.Offer.Groups, ks.Group) {
				// inconsistent offer (a share for a group that supported_groups does not list): a compliant server
				// cannot select it; the inconsistency itself is judged under C09
				st.Class(fmt.Sprintf("share-not-in-supported_groups(C09):%04x", ks.Group))
				continue
			}
			if vfContains16(vf18ServerGroups, ks.Group) {
				groups = append(groups, ks.Group)
			} else if ks.Group == 0x6399 {
				scripted = append(scripted, ks.Group) // X25519Kyber768Draft00: upstream's server cannot select it, the scripted one can
			} else {
				st.Class(fmt.Sprintf("share-not-selectable-by-upstream-server:%04x", ks.Group))
			}
		}
		keys := vfCertKeysFor(probe.Offer, VersionTLS13, "")
		if len(keys) == 0 {
			st.Class("no-cert-type")
			return
		}
		// shares only the scripted server can select: it performs the real exchange with the client's share, so the
		// handshake completes (Finished verified on both sides, data both ways) exactly when the client derives the
		// server's secret
		for _, g := range scripted {
			p2, err := vfPrepareClient(src, sni, rapid.Uint64().Draw(rt, fmt.Sprintf("scripted_seed_%04x", g)), nil)
			if err != nil {
				st.Violation(rt, "%s: %v", src, err)
			}
			sc := &vsrvScript{Group: g}
			srv := Server(p2.SP, vfServerConfig(keys[0], vfCertNames(sni)...))
			vsrvInstall(srv, sc)
			pair := &vfPair{CP: p2.CP, SP: p2.SP, Cli: p2.UC, Srv: srv}
			cerr, serr := pair.Handshake()
			if cerr != nil || serr != nil || !sc.Completed || !sc.UsedShare {
				st.Violation(rt, "%s: scripted server selected the offered share %#04x (real exchange with the client's share: %v): client err=%v server err=%v completed=%v log=%v", src, g, sc.UsedShare, cerr, serr, sc.Completed, sc.Log)
			}
			if err := pair.Echo([]byte("c18"), []byte("C18")); err != nil {
				st.Violation(rt, "%s: scripted server selected %#04x: data exchange: %v", src, g, err)
			}
			pair.Close()
			st.Class(fmt.Sprintf("selected-by-scripted-server=%04x", g))
			st.NonTrivial(fmt.Sprintf("%s|scripted|%04x", src.Kind+":"+src.Name, g))
		}
		if len(groups) == 0 {
			st.Class("no-selectable-share")
			return
		}
		// a real ECH configuration (accepted by the server) for sources whose hello carries an ECH extension: the
		// handshake then continues with the inner hello, whose key shares are the outer hello's
		var ccm, scm func(*Config)
		if probe.Offer.Hello.ECH() != nil && src.Kind != "golang" && rapid.Bool().Draw(rt, "real_ech") {
			list, key := vfMakeECHConfig(rapid.Uint64Range(1, 250).Draw(rt, "ech_id"), "public.c18.test")
			ccm = func(c *Config) { c.EncryptedClientHelloConfigList = list }
			scm = func(c *Config) { c.EncryptedClientHelloKeys = []EncryptedClientHelloKey{key} }
			st.Class("with-accepted-ech")
		}
		for gi, g := range groups {
			choice := vfSrvChoice{Ver: VersionTLS13, Group: g, CertKey: keys[0]}
			res := vfGridRun(rt, st, "C18", vfGridOpts{Src: &src, SNI: &sni, Choice: &choice, KeepOpen: true, Label: fmt.Sprintf("g%d_", gi), CCfgMod: ccm, SCfgMod: scm})
			if res == nil || !res.OK {
				continue
			}
			// same secret <=> exporters agree
			ck, e1 := res.Pair.Cli.Conn.ekm("vf-c18", nil, 32)
			sk, e2 := res.Pair.Srv.ekm("vf-c18", nil, 32)
			if e1 != nil || e2 != nil || !bytes.Equal(ck, sk) {
				st.Violation(rt, "%s: server selected group %#x: exporters differ (%v %v)", src, g, e1, e2)
			}
			shs := vfServerHellosOnWire(res.Pair.SP.Written())
			if len(shs) != 1 || shs[0].IsHRR || shs[0].KeyShareGroup() != g {
				st.Violation(rt, "%s: server pinned to offered share %#x answered with %d hello(s), hrr=%v group=%#x", src, g, len(shs), len(shs) > 0 && shs[0].IsHRR, shs[len(shs)-1].KeyShareGroup())
			}
			res.Pair.Close()
			st.Class(fmt.Sprintf("selected=%04x,index=%d", g, gi))
			if gi > 0 {
				st.NonTrivial(fmt.Sprintf("%s|%04x|%d", src.Kind+":"+src.Name, g, gi))
			}
		}
		st.Sample(map[string]any{"client": src.String(), "shares": fmt.Sprintf("%04x", groups)})
	})
}

// vf18HybridCaptureSrc: in one case out of five the source is a fingerprinted capture (as is, or with permuted
// extensions) of a parrot that sends a hybrid (ML-KEM / Kyber draft) key share: the captured key material must not
// survive in the spec.
func vf18HybridCaptureSrc(rt *rapid.T) (vfClientSrc, bool) {
	if rapid.IntRange(0, 4).Draw(rt, "hybrid_capture") != 0 {
		return vfClientSrc{}, false
	}
	var hybrid []vfParrot
	for _, p := range vfParrots {
		spec, err := UTLSIdToSpec(p.ID)
		if err != nil {
			continue
		}
		for _, e := range spec.Extensions {
			if ks, ok := e.(*KeyShareExtension); ok {
				for _, k := range ks.KeyShares {
					if k.Group == X25519MLKEM768 || k.Group == X25519Kyber768Draft00 {
						hybrid = append(hybrid, p)
					}
				}
			}
		}
	}
	if len(hybrid) == 0 {
		return vfClientSrc{}, false
	}
	p := hybrid[rapid.IntRange(0, len(hybrid)-1).Draw(rt, "hybrid_parrot")]
	if rapid.Bool().Draw(rt, "hybrid_capture_reordered") {
		return vfFingerprintedReorderedSrc(p, rapid.Uint64().Draw(rt, "hybrid_capture_order"))
	}
	return vfFingerprintedSrc(p)
}

// vf18ShortReader returns at most k bytes per Read.
type vf18ShortReader struct {
	r io.Reader
	k int
}

func (s *vf18ShortReader) Read(p []byte) (int, error) {
	if len(p) > s.k {
		p = p[:s.k]
	}
	return s.r.Read(p)
}

// Sizes per group; no repetition of shares, client randoms and session ids across connections.
func TestVerifC18Freshness(t *testing.T) {
	st := vfNewStats(t, "C18")
	rapid.Check(t, func(rt *rapid.T) {
		src := vfGenClientSrc(rt, "src")
		if alt, ok := vf18HybridCaptureSrc(rt); ok {
			src = alt
		}
		sni := vfGenDNSName(rt, "sni")
		n := rapid.IntRange(3, 8).Draw(rt, "n")
		useCryptoRand := rapid.Bool().Draw(rt, "cryptorand")
		baseSeed := rapid.Uint64().Draw(rt, "seedbase")
		shortReads := rapid.SampledFrom([]int{0, 0, 1, 3, 7, 16}).Draw(rt, "rand_short_reads")
		if shortReads > 0 && !useCryptoRand {
			st.Class("config-rand-with-short-reads")
		}
		seen := map[string]int{}
		nshares := 0
		for i := 0; i < n; i++ {
			mod := func(c *Config) {
				if useCryptoRand {
					c.Rand = nil
				} else if shortReads > 0 {
					// an entropy source that legally returns fewer bytes than asked for (io.Reader contract)
					c.Rand = &vf18ShortReader{r: c.Rand, k: shortReads}
				}
			}
			p, err := vfPrepareClient(src, sni, baseSeed+uint64(i)*0x9e3779b97f4a7c15, mod)
			if err != nil {
				st.Violation(rt, "%s: %v", src, err)
			}
			p.CP.Close()
			st.Eval()
			h := p.Offer.Hello
			note := func(kind string, b []byte) {
				k := kind + ":" + hex.EncodeToString(b)
				if j, dup := seen[k]; dup {
					st.Violation(rt, "%s: %s of connection %d repeats that of connection %d: %x", src, kind, i, j, b)
				}
				seen[k] = i
			}
			note("client_random", h.Random)
			if len(h.Random) != 32 {
				st.Violation(rt, "%s: client random has %d bytes", src, len(h.Random))
			}
			if len(h.Random) == 32 && bytes.Equal(h.Random[16:], make([]byte, 16)) {
				// probability 2^-128 for a random that was really filled
				st.Violation(rt, "%s: client random %x ends in 16 zero bytes: it was not filled from Config.Rand (short reads: %d bytes per Read)", src, h.Random, shortReads)
			}
			if len(h.SessionID) == 32 && bytes.Equal(h.SessionID[16:], make([]byte, 16)) {
				st.Violation(rt, "%s: session id %x ends in 16 zero bytes: it was not filled from Config.Rand (short reads: %d bytes per Read)", src, h.SessionID, shortReads)
			}
			if len(h.SessionID) > 0 {
				note("session_id", h.SessionID)
			}
			for _, ks := range h.KeyShares() {
				if vfIsGREASE(ks.Group) {
					continue
				}
				nshares++
				want := vfShareSize(ks.Group)
				if want == 0 {
					st.Class(fmt.Sprintf("unknown-group-size:%04x", ks.Group))
				} else if len(ks.Data) != want {
					st.Violation(rt, "%s: key share for group %#x has %d bytes, want %d", src, ks.Group, len(ks.Data), want)
				}
				note(fmt.Sprintf("share[%04x]", ks.Group), ks.Data)
				// hybrid shares embed an X25519 key that must be fresh as well
				switch ks.Group {
				case 0x6399:
					if len(ks.Data) >= 32 {
						note("hybrid-x25519-part", ks.Data[:32])
					}
				case vfGroupX25519MLKEM768:
					if len(ks.Data) >= 32 {
						note("hybrid-x25519-part", ks.Data[len(ks.Data)-32:])
					}
				}
			}
		}
		if nshares > 0 {
			st.NonTrivial(fmt.Sprintf("%s|%d|%v", src.String(), n, useCryptoRand))
			st.Class("with-key-shares")
		} else {
			st.Class("no-key-shares(tls12-only)")
		}
		st.Sample(map[string]any{"client": src.String(), "connections": n, "crypto_rand": useCryptoRand, "shares_seen": nshares})
	})
}

// QUIC connections send an empty legacy session ID.
func TestVerifC18QUICSessionID(t *testing.T) {
	st := vfNewStats(t, "C18")
	rapid.Check(t, func(rt *rapid.T) {
		// a TLS 1.3-only QUIC spec assembled from a drawn TLS 1.3 source: take the parrot/randomized spec, force
		// min version 1.3 and add quic_transport_parameters
		src := vfGenTLS13Src(rt)
		var spec ClientHelloSpec
		var err error
		if src.SpecFn != nil {
			spec = *src.SpecFn()
		} else if src.Kind == "parrot" {
			spec, err = UTLSIdToSpec(src.ID)
		} else {
			spec, err = generateRandomizedSpec(&src.ID, "quic.example", []string{"h3"})
		}
		if err != nil {
			st.Violation(rt, "%s: spec: %v", src, err)
		}
		st.Eval()
		spec.TLSVersMin, spec.TLSVersMax = VersionTLS13, VersionTLS13
		var exts []TLSExtension
		for _, e := range spec.Extensions {
			switch x := e.(type) {
			case *SupportedVersionsExtension:
				exts = append(exts, &SupportedVersionsExtension{Versions: []uint16{VersionTLS13}})
			case PreSharedKeyExtension:
				_ = x // dropped: no session
			default:
				exts = append(exts, e)
			}
		}
		exts = append(exts, &QUICTransportParametersExtension{TransportParameters: TransportParameters{InitialMaxData(1 << 20), &GREASEQUICBit{}}})
		spec.Extensions = exts
		cfg := vfClientConfig("quic.example")
		cfg.MinVersion = VersionTLS13
		cfg.NextProtos = []string{"h3"}
		cfg.Rand = vfNewDetRand(rapid.Uint64().Draw(rt, "seed"), "quic")
		uq := UQUICClient(&QUICConfig{TLSConfig: cfg}, HelloCustom)
		if err := uq.ApplyPreset(&spec); err != nil {
			st.Class("quic-apply-preset-error: " + err.Error())
			return
		}
		if err := uq.conn.BuildHandshakeState(); err != nil {
			st.Class("quic-build-error: " + err.Error())
			return
		}
		h := vfParseClientHello(uq.conn.HandshakeState.Hello.Raw)
		if len(h.SessionID) != 0 {
			st.Violation(rt, "%s as QUIC: legacy_session_id has %d bytes, must be empty", src, len(h.SessionID))
		}
		if h.Ext(57) == nil {
			st.Violation(rt, "%s as QUIC: quic_transport_parameters missing from the hello", src)
		}
		st.NonTrivial("quic|" + src.Kind + ":" + src.Name)
		st.Class("quic-hello-built")
	})
}
