//go:build verif

package tls

// C33 (extension): a flood of correctly protected but useless records after a clean handshake (zero-length
// application_data fragments, legal in every version). "Nothing is allocated beyond the protocol's length limits" includes
// the goroutine stack: a reader that follows ignorable records by recursion must give up after a bounded number of them.
// The server (holding the real traffic keys) writes N empty records back to back, then one byte of data; a sampler reads
// the runtime's stack-memory metric while the client's Read runs. Oracle: Read returns (error or data) and the stack
// memory of the process did not grow by more than 48 MiB (the unchanged library stops after 32 records: well below 1 MiB).

import (
	"fmt"
	"os"
	"runtime/metrics"
	"sync/atomic"
	"testing"
	"time"
)

func vf33StackBytes() uint64 {
	s := []metrics.Sample{{Name: "/memory/classes/heap/stacks:bytes"}}
	metrics.Read(s)
	if s[0].Value.Kind() != metrics.KindUint64 {
		return 0
	}
	return s[0].Value.Uint64()
}

func TestVerifC33EmptyRecordFlood(t *testing.T) {
	if sh := os.Getenv("VERIF_SHARD"); sh != "" && sh != "0" {
		t.Skip("directed test: runs in shard 0 only")
	}
	st := vfNewStats(t, "C33")
	n := 150000
	if vfThorough() {
		n = 400000
	}
	type cfg struct {
		name  string
		id    ClientHelloID
		ver   uint16
		suite uint16
	}
	for _, c := range []cfg{{"Chrome_120/TLS1.3", HelloChrome_120, VersionTLS13, 0}, {"Golang/TLS1.2/AES128-GCM", HelloGolang, VersionTLS12, TLS_ECDHE_ECDSA_WITH_AES_128_GCM_SHA256},
		{"Firefox_105/TLS1.2/CHACHA20", HelloFirefox_105, VersionTLS12, TLS_ECDHE_ECDSA_WITH_CHACHA20_POLY1305_SHA256}} {
		st.Eval()
		cp, sp := vfPipe()
		ccfg := vfClientConfig("flood.c33.test")
		ccfg.OmitEmptyPsk = true
		uc := UClient(cp, ccfg, c.id)
		scfg := vfServerConfig("ecdsa", "flood.c33.test")
		scfg.MinVersion, scfg.MaxVersion = c.ver, c.ver
		if c.suite != 0 {
			scfg.CipherSuites = []uint16{c.suite}
		}
		srv := Server(sp, scfg)
		pair := &vfPair{CP: cp, SP: sp, Cli: uc, Srv: srv}
		if cerr, serr := pair.Handshake(); cerr != nil || serr != nil {
			st.Class("flood:handshake-failed")
			pair.Close()
			continue
		}
		if err := pair.Echo([]byte("a"), []byte("b")); err != nil {
			st.Class("flood:handshake-failed")
			pair.Close()
			continue
		}
		// the flood, sealed with the server's real keys
		vers := c.ver
		if vers == VersionTLS13 {
			vers = VersionTLS12
		}
		srv.out.Lock()
		var flood []byte
		for i := 0; i < n; i++ {
			rec, err := srv.out.encrypt([]byte{byte(recordTypeApplicationData), byte(vers >> 8), byte(vers), 0, 0}, nil, srv.config.rand())
			if err != nil {
				t.Fatalf("harness: %v", err)
			}
			flood = append(flood, rec...)
		}
		srv.out.Unlock()
		base := vf33StackBytes()
		var peak atomic.Uint64
		stop := make(chan struct{})
		sdone := make(chan struct{})
		go func() {
			defer close(sdone)
			for {
				if v := vf33StackBytes(); v > peak.Load() {
					peak.Store(v)
				}
				select {
				case <-stop:
					return
				case <-time.After(500 * time.Microsecond):
				}
			}
		}()
		dl := time.Now().Add(20 * time.Second)
		cp.SetDeadline(dl)
		sp.SetDeadline(dl)
		go func() {
			sp.Write(flood)
			srv.Write([]byte("x"))
			sp.CloseWrite()
		}()
		var rn int
		var rerr error
		rdone := make(chan struct{})
		var pan *vfPanic
		go func() {
			defer close(rdone)
			pan = vfCatch(func() { rn, rerr = uc.Read(make([]byte, 16)) })
		}()
		hang := false
		select {
		case <-rdone:
		case <-time.After(40 * time.Second):
			hang = true
		}
		close(stop)
		<-sdone
		grew := int64(peak.Load()) - int64(base)
		what := fmt.Sprintf("%s: %d consecutive empty application_data records (%d bytes on the wire), then one byte of data", c.name, n, len(flood))
		if pan != nil {
			st.Violation(t, "%s: Read panicked: %v", what, pan.Val)
		}
		if hang {
			st.Violation(t, "%s: Read did not return within 40 s", what)
		}
		if grew > 48<<20 {
			st.Violation(t, "%s: the process' goroutine stacks grew by %d MiB while Read followed the records (Read returned %d, %v): ignorable records are followed without bound", what, grew>>20, rn, rerr)
		}
		st.Class(fmt.Sprintf("flood:read-error=%v", rerr != nil))
		st.Extra("flood_max_stack_growth_bytes:"+c.name, grew)
		st.NonTrivial("flood|" + c.name)
		st.Sample(map[string]any{"client": c.name, "records": n, "read": fmt.Sprintf("%d, %v", rn, rerr), "stack_growth_bytes": grew})
		pair.Close()
	}
}
