//go:build verif

package tls

// C34 (extension): the SECOND ClientHello. The byte streams of c34_server_test.go are fixed in advance, so the server
// leaves the first hello behind only when that hello is complete enough; the code that compares a second ClientHello
// with the first (after a HelloRetryRequest) is reached only by a stream that contains a hello without a usable share
// followed by a hello that has exactly one share for the group the server will ask for. This test builds such pairs
// from every TLS 1.3-capable base hello (the server is pinned to a group the hello lists but sends no share for; the
// second hello carries a real public key for it) and then edits the second hello: lists grown, shrunk or replaced
// (ALPN, versions, suites, groups, signature algorithms), fields changed, extensions added or dropped, plus the generic
// structure-aware mutators. Oracle as everywhere in C34: Handshake/Read return, no panic, no hang, bounded allocation.

import (
	"crypto/ecdh"
	"crypto/rand"
	"fmt"
	"testing"

	"pgregory.net/rapid"
)

func vf34ExtIdx(c *vf34CH, typ uint16) int {
	for i, e := range c.Exts {
		if e.Type == typ {
			return i
		}
	}
	return -1
}

// vf34U16List decodes a "vec16 of uint16" body (supported_groups, signature_algorithms).
func vf34U16List(body []byte) []uint16 {
	var out []uint16
	if len(body) < 2 {
		return nil
	}
	for b := body[2:]; len(b) >= 2; b = b[2:] {
		out = append(out, uint16(b[0])<<8|uint16(b[1]))
	}
	return out
}

func vf34EncU16List(l []uint16) []byte {
	var b []byte
	for _, x := range l {
		b = vf34PutU16(b, int(x))
	}
	return vf34Vec16(b)
}

func vf34EditSecondHello(rt *rapid.T, c *vf34CH, l string) string {
	pick := func(n int, s string) int { return rapid.IntRange(0, n-1).Draw(rt, l+"_"+s) }
	// grow / shrink / replace a list: returns the new list
	edit16 := func(cur []uint16, pool []uint16, s string) []uint16 {
		switch pick(4, s+"_how") {
		case 0: // append 1..3
			for i, n := 0, 1+pick(3, s+"_n"); i < n; i++ {
				cur = append(cur, pool[pick(len(pool), fmt.Sprintf("%s_v%d", s, i))])
			}
		case 1: // drop the last
			if len(cur) > 0 {
				cur = cur[:len(cur)-1]
			}
		case 2: // drop the first
			if len(cur) > 0 {
				cur = cur[1:]
			}
		default: // change one in place
			if len(cur) > 0 {
				cur = append([]uint16(nil), cur...)
				cur[pick(len(cur), s+"_at")] = pool[pick(len(pool), s+"_v")]
			}
		}
		return cur
	}
	switch k := pick(12, "kind"); k {
	case 0, 1: // ALPN: more / fewer / other protocols
		i := vf34ExtIdx(c, 16)
		protos := [][]byte{}
		if i >= 0 && len(c.Exts[i].Body) >= 2 {
			for b := c.Exts[i].Body[2:]; len(b) >= 1 && len(b) >= 1+int(b[0]); b = b[1+int(b[0]):] {
				protos = append(protos, b[1:1+int(b[0])])
			}
		}
		switch pick(4, "alpn_how") {
		case 0:
			for j, n := 0, 1+pick(4, "alpn_n"); j < n; j++ {
				protos = append(protos, [][]byte{[]byte("http/1.1"), []byte("h3"), []byte("spdy/3.1"), []byte("x")}[pick(4, fmt.Sprintf("alpn_v%d", j))])
			}
		case 1:
			if len(protos) > 0 {
				protos = protos[:len(protos)-1]
			}
		case 2:
			if len(protos) > 0 {
				protos[pick(len(protos), "alpn_at")] = []byte("vf-changed")
			}
		default:
			protos = append([][]byte{[]byte("first")}, protos...)
		}
		var inner []byte
		for _, p := range protos {
			inner = append(inner, vf34Vec8(p)...)
		}
		if i >= 0 {
			c.Exts[i].Body = vf34Vec16(inner)
		} else {
			c.Exts = append([]vfExt{{Type: 16, Body: vf34Vec16(inner)}}, c.Exts...)
		}
		return fmt.Sprintf("second-hello-alpn(%d protocols)", len(protos))
	case 2: // supported_versions
		if i := vf34ExtIdx(c, 43); i >= 0 && len(c.Exts[i].Body) >= 1 {
			var cur []uint16
			for b := c.Exts[i].Body[1:]; len(b) >= 2; b = b[2:] {
				cur = append(cur, uint16(b[0])<<8|uint16(b[1]))
			}
			cur = edit16(cur, []uint16{0x0304, 0x0303, 0x0302, 0x0301, 0x7f1c, 0x0a0a}, "vers")
			var b []byte
			for _, v := range cur {
				b = vf34PutU16(b, int(v))
			}
			c.Exts[i].Body = vf34Vec8(b)
			return fmt.Sprintf("second-hello-versions(%d)", len(cur))
		}
		return "second-hello-noop"
	case 3: // cipher suites
		var cur []uint16
		for b := c.Suites; len(b) >= 2; b = b[2:] {
			cur = append(cur, uint16(b[0])<<8|uint16(b[1]))
		}
		cur = edit16(cur, []uint16{0x1301, 0x1302, 0x1303, 0xc02b, 0xc02f, 0x009c, 0x00ff, 0x5a5a}, "suites")
		c.Suites = nil
		for _, v := range cur {
			c.Suites = vf34PutU16(c.Suites, int(v))
		}
		return fmt.Sprintf("second-hello-suites(%d)", len(cur))
	case 4: // supported_groups
		if i := vf34ExtIdx(c, 10); i >= 0 {
			cur := edit16(vf34U16List(c.Exts[i].Body), []uint16{0x001d, 0x0017, 0x0018, 0x0019, 0x11ec, 0x0100, 0x2a2a}, "groups")
			c.Exts[i].Body = vf34EncU16List(cur)
			return fmt.Sprintf("second-hello-groups(%d)", len(cur))
		}
		return "second-hello-noop"
	case 5: // signature_algorithms / signature_algorithms_cert
		typ := []uint16{13, 50}[pick(2, "sigext")]
		if i := vf34ExtIdx(c, typ); i >= 0 {
			cur := edit16(vf34U16List(c.Exts[i].Body), []uint16{0x0403, 0x0804, 0x0401, 0x0503, 0x0807, 0x0201}, "sigalgs")
			c.Exts[i].Body = vf34EncU16List(cur)
			return fmt.Sprintf("second-hello-sigalgs-%d(%d)", typ, len(cur))
		}
		return "second-hello-noop"
	case 6: // key_share: second share, other group, empty
		if i := vf34ExtIdx(c, 51); i >= 0 {
			switch pick(3, "ks_how") {
			case 0:
				old := c.Exts[i].Body
				if len(old) >= 2 { // (an earlier edit may have emptied the body)
					old = old[2:]
				} else {
					old = nil
				}
				c.Exts[i].Body = vf34Vec16(append(append([]byte(nil), old...), append(vf34PutU16(nil, 0x001d), vf34Vec16(make([]byte, 32))...)...))
			case 1:
				c.Exts[i].Body = []byte{0, 0}
			default:
				if len(c.Exts[i].Body) >= 4 {
					c.Exts[i].Body[3] ^= 1 // another group id, same key bytes
				}
			}
			return "second-hello-keyshare"
		}
		return "second-hello-noop"
	case 7: // session id / random / compression
		switch pick(3, "field") {
		case 0:
			c.SID = vf34GenBytes(rt, l+"_sid", 32)
		case 1:
			c.Random = rapid.SliceOfN(rapid.Byte(), 32, 32).Draw(rt, l+"_rnd")
		default:
			c.Comp = []byte{1, 0}
		}
		return "second-hello-field"
	case 8: // cookie / early_data / psk added although never requested
		switch pick(3, "add") {
		case 0:
			c.Exts = append(c.Exts, vfExt{Type: 44, Body: vf34Vec16(vf34GenBytes(rt, l+"_cookie", 40))})
		case 1:
			c.Exts = append(c.Exts, vfExt{Type: 42})
		default:
			id := vf34GenBytes(rt, l+"_pskid", 40)
			body := vf34Vec16(append(vf34Vec16(id), 0, 0, 0, 0))
			body = append(body, vf34Vec16(vf34Vec8(make([]byte, 32)))...)
			c.Exts = append(c.Exts, vfExt{Type: 41, Body: body})
		}
		return "second-hello-added-extension"
	case 9: // drop an extension
		if len(c.Exts) > 0 {
			i := pick(len(c.Exts), "drop")
			t := c.Exts[i].Type
			c.Exts = append(c.Exts[:i], c.Exts[i+1:]...)
			return fmt.Sprintf("second-hello-dropped-extension-%d", t)
		}
		return "second-hello-noop"
	default:
		return "second-hello-" + vf34MutateCH(rt, c, l+"_generic")
	}
}

// vf34SetECH replaces (or adds / removes) the encrypted_client_hello extension of a hello by a drawn form: absent, the
// inner-type marker, an outer-type extension with drawn suite / config id / enc / payload, or a truncated one. Applied
// to the first and to the second hello independently, so that the server sees every combination of types across a
// HelloRetryRequest (it keeps ECH state from the first hello and compares the second with it).
func vf34SetECH(rt *rapid.T, c *vf34CH, l string) string {
	pick := func(n int, s string) int { return rapid.IntRange(0, n-1).Draw(rt, l+"_"+s) }
	var body []byte
	name := ""
	switch pick(5, "form") {
	case 0:
		if i := vf34ExtIdx(c, 0xfe0d); i >= 0 {
			c.Exts = append(c.Exts[:i], c.Exts[i+1:]...)
		}
		return "ech-absent"
	case 1:
		body, name = []byte{1}, "ech-inner"
	case 2, 3:
		kdf := []int{0, 1, 2}[pick(3, "kdf")]
		aead := []int{0, 1, 3}[pick(3, "aead")]
		id := []int{0, 7, 255}[pick(3, "id")]
		enc := make([]byte, []int{0, 0, 32, 5}[pick(4, "enc")])
		payload := make([]byte, []int{0, 16, 20, 200}[pick(4, "payload")])
		body = []byte{0}
		body = vf34PutU16(body, kdf)
		body = vf34PutU16(body, aead)
		body = append(body, byte(id))
		body = append(body, vf34Vec16(enc)...)
		body = append(body, vf34Vec16(payload)...)
		name = fmt.Sprintf("ech-outer(kdf=%d,aead=%d,id=%d,enc=%d,payload=%d)", kdf, aead, id, len(enc), len(payload))
	default:
		body = [][]byte{{}, {0}, {0, 0, 1}, {2}, {1, 0}}[pick(5, "bad")]
		name = fmt.Sprintf("ech-malformed(%x)", body)
	}
	if i := vf34ExtIdx(c, 0xfe0d); i >= 0 {
		c.Exts[i].Body = body
	} else {
		c.Exts = append(c.Exts, vfExt{Type: 0xfe0d, Body: body})
	}
	return name
}

func TestVerifC34HRRSecondHello(t *testing.T) {
	env := vf34GetEnv()
	st := vfNewStats(t, "C34")
	type hrrBase struct {
		b     vf34Base
		group CurveID
	}
	// bases that list a NIST group without sending a share for it
	var bases []hrrBase
	for _, b := range env.bases {
		if b.Kind != "plain" {
			continue
		}
		c := vf34FromMsg(b.Msg)
		gi, ki, vi := vf34ExtIdx(c, 10), vf34ExtIdx(c, 51), vf34ExtIdx(c, 43)
		if gi < 0 || ki < 0 || vi < 0 {
			continue
		}
		shares := map[uint16]bool{}
		if body := c.Exts[ki].Body; len(body) >= 2 {
			for p := body[2:]; len(p) >= 4; {
				g, n := uint16(p[0])<<8|uint16(p[1]), int(p[2])<<8|int(p[3])
				shares[g] = true
				if len(p) < 4+n {
					break
				}
				p = p[4+n:]
			}
		}
		for _, g := range vf34U16List(c.Exts[gi].Body) {
			if (g == 0x0017 || g == 0x0018 || g == 0x0019) && !shares[g] {
				bases = append(bases, hrrBase{b, CurveID(g)})
			}
		}
	}
	if len(bases) < 10 {
		t.Fatalf("harness: only %d base hellos can be driven into a HelloRetryRequest", len(bases))
	}
	st.Extra("hrr_bases", len(bases))
	rapid.Check(t, func(rt *rapid.T) {
		hb := bases[rapid.IntRange(0, len(bases)-1).Draw(rt, "base")]
		sk := rapid.SampledFrom([]int{vf34SrvDefault, vf34SrvALPNRequestCert, vf34SrvClientAuthAny}).Draw(rt, "server")
		cfg := vf34ServerConfig(env, sk)
		cfg.CurvePreferences = []CurveID{hb.group}
		c1 := vf34FromMsg(hb.b.Msg)
		c2 := c1.clone()
		var curve ecdh.Curve
		switch hb.group {
		case CurveP256:
			curve = ecdh.P256()
		case CurveP384:
			curve = ecdh.P384()
		default:
			curve = ecdh.P521()
		}
		key, err := curve.GenerateKey(rand.Reader)
		if err != nil {
			rt.Fatalf("harness: %v", err)
		}
		pub := key.PublicKey().Bytes()
		c2.Exts[vf34ExtIdx(c2, 51)].Body = vf34Vec16(append(vf34PutU16(nil, int(hb.group)), vf34Vec16(pub)...))
		var muts []string
		if rapid.IntRange(0, 2).Draw(rt, "ech_pair") == 0 {
			muts = append(muts, "first-hello-"+vf34SetECH(rt, c1, "ech1"), "second-hello-"+vf34SetECH(rt, c2, "ech2"))
		}
		for k, n := 0, rapid.IntRange(0, 2).Draw(rt, "n_edits"); k < n; k++ {
			muts = append(muts, vf34EditSecondHello(rt, c2, fmt.Sprintf("e%d", k)))
		}
		var stream []byte
		stream = append(stream, vf34Record(22, 0x0301, c1.msg())...)
		if rapid.Bool().Draw(rt, "ccs") {
			stream = append(stream, vf34Record(20, 0x0303, []byte{1})...)
		}
		if m2 := c2.msg(); len(m2) <= 16384 && rapid.IntRange(0, 3).Draw(rt, "plain_framing") != 0 {
			stream = append(stream, vf34Record(22, 0x0303, m2)...) // one record, the version a TLS 1.3 client uses after the HRR
		} else {
			stream = append(stream, vf34Frame(rt, "ch2", 22, m2)...)
		}
		st.Eval()
		o := vf34FeedServer(cfg, stream)
		for _, m := range muts {
			st.Class("mut=" + vf34MutClass(m))
		}
		st.Class("hrr:server=" + vf34SrvNames[sk])
		st.Class("hrr:hs-err=" + vf34ErrClass(o.HSErr))
		st.NonTrivial(vfHashHex(stream))
		st.Sample(map[string]any{"base": hb.b.Name + "/hrr", "group": fmt.Sprintf("%04x", uint16(hb.group)), "server": vf34SrvNames[sk], "mutations": muts, "hs_err": fmt.Sprint(o.HSErr)})
		vf34Verdict(rt, st, o, "second ClientHello after a HelloRetryRequest", func() string {
			return fmt.Sprintf("base=%s group=%04x server=%s edits=%v stream=%x", hb.b.Name, uint16(hb.group), vf34SrvNames[sk], muts, stream)
		})
	})
}
