//go:build verif

package tls

// C20 - injected sessions are used exactly as given, under any legal call order.
//
// A rapid state machine (rt.Repeat) and a bounded exhaustive enumeration drive the public session API of ONE UConn:
// SetSessionCache, BuildHandshakeStateWithoutSession, SetSessionTicketExtension, SetPskExtension, SetSessionState,
// BuildHandshakeState, Handshake. Every call order is classified from the doc comments alone (u_conn.go,
// u_session_controller.go, u_pre_shared_key.go) into allowed / forbidden / unspecified *before* it is executed:
//
//   allowed      a cache is configured (Config or SetSessionCache), any number of BuildHandshakeStateWithoutSession,
//                at most one non-nil setter call, made before the first BuildHandshakeState/Handshake, for an extension
//                the spec carries; nil setters anywhere ("no-op"); BuildHandshakeState any number of times; Handshake.
//                => no panic, no error, the given ticket / PSK identity is on the wire verbatim, and the server that
//                   can decrypt it resumes with the given version / suite / master secret.
//   forbidden    non-nil setter without a cache ("session is disabled"), non-nil setter after BuildHandshakeState or
//                Handshake ("cannot be changed after calling BuildHandshakeState"), an initialised session for an
//                extension the spec lacks => the call (resp. the next build) fails with an error or with a string
//                panic of the session controller; never a Go runtime error, never silent success.
//   unspecified  everything else (second setter, calls after the handshake, ...) => no runtime-error panic.

import (
	"bytes"
	"crypto/x509"
	"fmt"
	"os"
	"runtime"
	"strings"
	"sync"
	"testing"
	"time"

	"github.com/refraction-networking/utls/internal/tls13"
	"pgregory.net/rapid"
)

const vf20KeyNilDeref = "C20:preinitialised-UtlsPreSharedKeyExtension-nil-deref"
const vf20KeyWBreaks = "C20:build-without-session-breaks-tls13-handshake"
const vf20KeyCustomDropped = "C20:custom-spec-applied-before-setter-session-not-sent"

const vf20Name = "c20.test"

// ---- identity (parrot or parrot minus session extensions) ----

type vf20Ident struct {
	Name      string
	Base      vfParrot
	Drop      map[string]bool
	HasTicket bool
	HasPSK    bool
	HasEMS    bool
	HasDHE    bool
	MaxVers   uint16
	Suites    []uint16
}

func (id *vf20Ident) spec() (*ClientHelloSpec, error) {
	spec, err := UTLSIdToSpec(id.Base.ID)
	if err != nil {
		return nil, err
	}
	if len(id.Drop) > 0 {
		var keep []TLSExtension
		for _, e := range spec.Extensions {
			drop := false
			switch e.(type) {
			case *SessionTicketExtension:
				drop = id.Drop["ticket"]
			case PreSharedKeyExtension:
				drop = id.Drop["psk"]
			}
			if !drop {
				keep = append(keep, e)
			}
		}
		spec.Extensions = keep
	}
	return &spec, nil
}

func vf20NewIdent(base vfParrot, drop map[string]bool) (*vf20Ident, error) {
	id := &vf20Ident{Base: base, Drop: map[string]bool{}, Name: base.Name}
	for _, k := range []string{"psk", "ticket"} {
		if drop[k] {
			id.Drop[k] = true
			id.Name += "-no-" + k
		}
	}
	spec, err := id.spec()
	if err != nil {
		return nil, err
	}
	for _, e := range spec.Extensions {
		switch x := e.(type) {
		case *SessionTicketExtension:
			id.HasTicket = true
		case PreSharedKeyExtension:
			id.HasPSK = true
		case *ExtendedMasterSecretExtension:
			id.HasEMS = true
		case *PSKKeyExchangeModesExtension:
			for _, m := range x.Modes {
				if m == 1 {
					id.HasDHE = true
				}
			}
		}
	}
	id.MaxVers = vfSpecMaxVersion(spec)
	id.Suites = append([]uint16(nil), spec.CipherSuites...)
	return id, nil
}

func (id *vf20Ident) custom() bool { return len(id.Drop) > 0 }

// ---- environment of one case: server, real sessions from preliminary connections, forging ----

// vf20WrapLog records the secrets of the sessions the server wraps into new tickets (on a TLS 1.2 resumption the
// server re-wraps the master secret it resumed with): a server-side observation of the secret in use.
type vf20WrapLog struct {
	mu      sync.Mutex
	secrets [][]byte
}

func (k *vf20WrapLog) add(b []byte) {
	k.mu.Lock()
	k.secrets = append(k.secrets, append([]byte(nil), b...))
	k.mu.Unlock()
}
func (k *vf20WrapLog) Has(b []byte) bool {
	k.mu.Lock()
	defer k.mu.Unlock()
	for _, s := range k.secrets {
		if bytes.Equal(s, b) {
			return true
		}
	}
	return false
}
func (k *vf20WrapLog) Reset() {
	k.mu.Lock()
	k.secrets = nil
	k.mu.Unlock()
}

type vf20Env struct {
	id     *vf20Ident
	srvMax uint16
	leaf   *Certificate
	keylog *vf20WrapLog
	keys   [][32]byte
	warm   ClientSessionCache // holds the real session of version min(srvMax, id.MaxVers)
	real12 *SessionState
	real13 *SessionState
	seed   uint64
}

func (e *vf20Env) serverConfig(maxVers uint16) *Config {
	cfg := &Config{
		Certificates: []Certificate{*e.leaf},
		MinVersion:   VersionTLS10,
		MaxVersion:   maxVers,
		Time:         vfNow,
		CipherSuites: vfAllServerSuites(),
	}
	cfg.SetSessionTicketKeys(e.keys)
	cfg.WrapSession = func(cs ConnectionState, ss *SessionState) ([]byte, error) {
		e.keylog.add(ss.secret)
		return cfg.EncryptTicket(cs, ss)
	}
	cfg.UnwrapSession = func(id []byte, cs ConnectionState) (*SessionState, error) { return cfg.DecryptTicket(id, cs) }
	return cfg
}

func (e *vf20Env) clientConfig(cache ClientSessionCache) *Config {
	return &Config{ServerName: vf20Name, RootCAs: vfGetCA("main").Pool, Time: vfNow, ClientSessionCache: cache,
		OmitEmptyPsk: true, PreferSkipResumptionOnNilExtension: true}
}

func (e *vf20Env) newPair(cache ClientSessionCache, maxVers uint16) (*vfPair, error) {
	hid := e.id.Base.ID
	if e.id.custom() {
		hid = HelloCustom
	}
	pair := vfNewPair(e.clientConfig(cache), hid, e.serverConfig(maxVers))
	if e.id.custom() {
		spec, err := e.id.spec()
		if err != nil {
			return nil, err
		}
		if err := pair.Cli.ApplyPreset(spec); err != nil {
			return nil, err
		}
	}
	return pair, nil
}

// obtain a real session of the given server version through an ordinary connection
func (e *vf20Env) realSession(maxVers uint16) (*SessionState, ClientSessionCache) {
	cache := NewLRUClientSessionCache(4)
	pair, err := e.newPair(cache, maxVers)
	if err != nil {
		return nil, cache
	}
	defer pair.Close()
	if cerr, serr := pair.Handshake(); cerr != nil || serr != nil {
		return nil, cache
	}
	if pair.Echo([]byte("x"), []byte("y")) != nil {
		return nil, cache
	}
	cs, ok := cache.Get(vf20Name)
	if !ok || cs == nil || cs.session == nil || len(cs.session.ticket) == 0 {
		return nil, cache
	}
	return cs.session, cache
}

func vf20NewEnv(id *vf20Ident, srvMax uint16, seed uint64) *vf20Env {
	e := &vf20Env{id: id, srvMax: srvMax, keylog: &vf20WrapLog{}, seed: seed}
	e.leaf = vfLeaf(vfLeafSpec{KeyType: "ecdsa", Names: []string{vf20Name}})
	var k [32]byte
	copy(k[:], "vf20-ticket-key-0123456789abcdef")
	e.keys = [][32]byte{k}
	var c12, c13 ClientSessionCache
	e.real12, c12 = e.realSession(VersionTLS12)
	if e.real12 != nil && e.real12.version != VersionTLS12 {
		e.real12 = nil
	}
	if id.MaxVers >= VersionTLS13 {
		e.real13, c13 = e.realSession(VersionTLS13)
		if e.real13 != nil && e.real13.version != VersionTLS13 {
			e.real13 = nil
		}
	}
	if srvMax == VersionTLS13 && c13 != nil {
		e.warm = c13
	} else {
		e.warm = c12
	}
	e.keylog.Reset()
	return e
}

func (e *vf20Env) chain() ([]*x509.Certificate, [][]*x509.Certificate) {
	return []*x509.Certificate{e.leaf.Leaf}, [][]*x509.Certificate{{e.leaf.Leaf, vfGetCA("main").Cert}}
}

// forge12 makes a TLS 1.2 session the server can decrypt: chosen suite and master secret, EMS flag as the hello's.
func (e *vf20Env) forge12(pick int) *SessionState {
	var cands []uint16
	for _, s := range e.id.Suites {
		switch s {
		case TLS_ECDHE_ECDSA_WITH_AES_128_GCM_SHA256, TLS_ECDHE_ECDSA_WITH_AES_256_GCM_SHA384, TLS_ECDHE_ECDSA_WITH_CHACHA20_POLY1305_SHA256,
			TLS_ECDHE_ECDSA_WITH_AES_128_CBC_SHA, TLS_ECDHE_ECDSA_WITH_AES_256_CBC_SHA:
			cands = append(cands, s)
		}
	}
	if len(cands) == 0 {
		return nil
	}
	suite := cands[pick%len(cands)]
	ms := make([]byte, 48)
	vfNewDetRand(e.seed, "ms12").Read(ms)
	srv := &SessionState{version: VersionTLS12, cipherSuite: suite, createdAt: uint64(vfNow().Unix()), secret: ms, extMasterSecret: e.id.HasEMS}
	ticket, err := e.serverConfig(VersionTLS13).EncryptTicket(ConnectionState{}, srv)
	if err != nil {
		return nil
	}
	certs, chains := e.chain()
	css := MakeClientSessionState(ticket, VersionTLS12, suite, ms, certs, chains)
	css.session.extMasterSecret = e.id.HasEMS // MakeClientSessionState has no EMS parameter ("TODO ... in uTLS v2")
	css.session.isClient = true
	css.session.createdAt = uint64(vfNow().Unix())
	return css.session
}

func (e *vf20Env) forge13(pick int) *SessionState {
	suite := []uint16{TLS_AES_128_GCM_SHA256, TLS_CHACHA20_POLY1305_SHA256}[pick%2]
	psk := make([]byte, 32)
	vfNewDetRand(e.seed, "psk13").Read(psk)
	now := uint64(vfNow().Unix())
	srv := &SessionState{version: VersionTLS13, cipherSuite: suite, createdAt: now, secret: psk}
	label, err := e.serverConfig(VersionTLS13).EncryptTicket(ConnectionState{}, srv)
	if err != nil {
		return nil
	}
	certs, chains := e.chain()
	return &SessionState{version: VersionTLS13, isClient: true, cipherSuite: suite, createdAt: now, secret: psk,
		peerCertificates: certs, verifiedChains: chains, useBy: now + 7*24*3600, ageAdd: uint32(e.seed), ticket: label}
}

// ---- ops ----

type vf20Op struct {
	Kind    string // C W T P S B H
	Variant string
	Pick    int
}

func (o vf20Op) String() string {
	if o.Variant != "" {
		return o.Kind + "(" + o.Variant + ")"
	}
	return o.Kind
}

var vf20Variants = map[string][]string{
	"C": {"warm", "empty"},
	"T": {"real", "forged", "uninit", "nil"},
	"P": {"real", "forged", "real-fields", "forged-fields", "fake", "uninit", "nil"},
	"S": {"real", "forged", "nil"},
}

type vf20Inj struct {
	Kind    string        // "ticket" or "psk"
	Variant string        //
	Session *SessionState // may be nil (SetSessionState(nil), fake psk)
	Ticket  []byte        // expected verbatim on the wire (ticket body / PSK identity)
	Age     uint32
	Binder  []byte // fake psk: expected verbatim
	Fields  bool   // UtlsPreSharedKeyExtension filled through its exported fields
}

type vf20Machine struct {
	st   *vfStats
	t    vfFataler
	env  *vf20Env
	pair *vfPair
	uc   *UConn

	cacheSet  bool
	built     bool
	hsDone    bool
	dead      bool
	nSetters  int
	inj       *vf20Inj
	status    string // "allowed" | "forbidden:<why>" | "unspecified:<why>"
	needFail  bool   // session injected for an extension the spec lacks: error, or the session stays off the wire
	sawFail   bool
	wFirst    bool // BuildHandshakeStateWithoutSession was called before the first session-loading build
	fieldsPsk bool // a UtlsPreSharedKeyExtension filled through its exported fields was handed to SetPskExtension
	userPsk   bool // a non-nil PSK extension (initialised or not) was handed over in an allowed position
	trace     []string
	log       []string
}

func vf20NewMachine(st *vfStats, t vfFataler, env *vf20Env, cacheInConfig bool) (*vf20Machine, error) {
	m := &vf20Machine{st: st, t: t, env: env, status: "allowed"}
	env.keylog.Reset()
	var cache ClientSessionCache
	if cacheInConfig {
		cache = NewLRUClientSessionCache(4)
		m.cacheSet = true
		m.trace = append(m.trace, "cfgcache")
	}
	var err error
	m.pair, err = env.newPair(cache, env.srvMax)
	if err != nil {
		return nil, err
	}
	m.uc = m.pair.Cli
	return m, nil
}

func (m *vf20Machine) fail(format string, a ...any) {
	m.t.Helper()
	m.st.Violation(m.t, "%s\n  identity=%s srvMax=%#x status=%s ops=%s\n  %s", fmt.Sprintf(format, a...), m.env.id.Name, m.env.srvMax,
		m.status, strings.Join(m.trace, " "), strings.Join(m.log, "\n  "))
}

func (m *vf20Machine) demote(s string) {
	if m.status == "allowed" {
		m.status = s
	}
}

// judgePanic handles a recovered panic of op. mustBeAssertion: the call is forbidden, a string panic is fine.
func (m *vf20Machine) judgePanic(op vf20Op, p *vfPanic) {
	m.t.Helper()
	m.dead = true
	m.log = append(m.log, fmt.Sprintf("%s panicked: %v", op, p.Val))
	if _, isRT := p.Val.(runtime.Error); isRT {
		if m.fieldsPsk && strings.Contains(fmt.Sprint(p.Val), "nil pointer dereference") && strings.Contains(p.Stack, "UtlsPreSharedKeyExtension).PatchBuiltHello") {
			m.st.Class("outcome:known:preinitialised-psk-ext-nil-deref")
			m.st.KnownOrViolation(m.t, vf20KeyNilDeref, "%s: UtlsPreSharedKeyExtension initialised through its exported fields (IsInitialized()==true) then %s: %v\n  ops=%s\n%s",
				m.env.id.Name, op, p.Val, strings.Join(m.trace, " "), vf20Frames(p.Stack))
			return
		}
		m.fail("%s raised a Go runtime error (status %s): %v\n%s", op, m.status, p.Val, vf20Frames(p.Stack))
	}
	if m.status == "allowed" {
		m.fail("%s panicked in an ordering the documentation allows: %v\n%s", op, p.Val, vf20Frames(p.Stack))
	}
	if strings.HasPrefix(m.status, "forbidden") {
		if _, ok := p.Val.(string); !ok {
			m.fail("%s: forbidden call panicked with a %T, not with an assertion message: %v", op, p.Val, p.Val)
		}
		m.sawFail = true
		m.st.Class("outcome:forbidden->assertion-panic")
	}
}

func vf20Frames(stack string) string {
	var out []string
	for _, l := range strings.Split(stack, "\n") {
		if strings.Contains(l, "utls.") && !strings.Contains(l, "vf") {
			out = append(out, "    "+strings.TrimSpace(l))
		}
		if len(out) >= 8 {
			break
		}
	}
	return strings.Join(out, "\n")
}

func (m *vf20Machine) pskExt(sess *SessionState, fields bool, age uint32) PreSharedKeyExtension {
	suite := cipherSuiteTLS13ByID(sess.cipherSuite)
	es := tls13.NewEarlySecret(suite.hash.New, sess.secret)
	ids := []PskIdentity{{Label: sess.ticket, ObfuscatedTicketAge: age}}
	if fields {
		return &UtlsPreSharedKeyExtension{PreSharedKeyCommon: PreSharedKeyCommon{
			Identities: ids, Binders: [][]byte{make([]byte, suite.hash.Size())}, BinderKey: es.ResumptionBinderKey(),
			EarlySecret: es.Secret(), Session: sess}}
	}
	ext := &UtlsPreSharedKeyExtension{}
	ext.InitializeByUtls(sess, es.Secret(), es.ResumptionBinderKey(), ids)
	return ext
}

// step classifies op from the documentation, executes it and judges the result.
func (m *vf20Machine) step(op vf20Op) {
	m.t.Helper()
	if m.dead {
		return
	}
	env := m.env
	m.trace = append(m.trace, op.String())
	var err error
	var call func()
	callForbidden := "" // this very call is forbidden: it must fail
	isNilSetter := false

	setter := func(kind string, initialised bool, inj *vf20Inj) {
		switch {
		case !m.cacheSet:
			callForbidden = "no-cache"
			m.demote("forbidden:setter-without-cache")
		case m.built:
			callForbidden = "after-build"
			m.demote("forbidden:setter-after-build")
		case m.nSetters > 0:
			m.demote("unspecified:second-setter")
		default:
			m.nSetters++
			lacks := (kind == "ticket" && !env.id.HasTicket) || (kind == "psk" && !env.id.HasPSK)
			if kind == "psk" && !lacks {
				m.userPsk = true
			}
			switch {
			case lacks && initialised:
				// the implementation answers "the user provided a session ticket, but the specification doesn't contain
				// one"; the doc comments do not promise that error, so silently not using the session is accepted too
				m.demote("unspecified:session-for-extension-the-spec-lacks")
				m.needFail = true
				m.inj = inj
			case lacks:
				m.demote("unspecified:uninitialised-extension-the-spec-lacks")
			case initialised:
				m.inj = inj
			}
		}
	}

	switch op.Kind {
	case "C":
		cache := env.warm
		if op.Variant == "empty" || cache == nil {
			cache = NewLRUClientSessionCache(4)
		}
		if m.hsDone {
			m.demote("unspecified:after-handshake")
		} else if m.built {
			m.demote("unspecified:cache-after-build")
		}
		m.cacheSet = true
		call = func() { m.uc.SetSessionCache(cache) }
	case "W":
		if m.hsDone {
			m.demote("unspecified:after-handshake")
		} else if m.built {
			m.demote("unspecified:without-session-after-build")
		} else {
			m.wFirst = true
		}
		call = func() { err = m.uc.BuildHandshakeStateWithoutSession() }
	case "B":
		if m.hsDone {
			m.demote("unspecified:after-handshake")
		}
		m.built = true
		call = func() { err = m.uc.BuildHandshakeState() }
	case "T", "S":
		var sess *SessionState
		v := op.Variant
		if v == "real" {
			if sess = env.real12; sess == nil {
				v = "forged"
			}
		}
		if v == "forged" {
			if sess = env.forge12(op.Pick); sess == nil {
				v = "uninit"
				if op.Kind == "S" {
					v = "nil"
				}
			}
		}
		switch {
		case op.Kind == "T" && v == "nil":
			isNilSetter = true
			call = func() { err = m.uc.SetSessionTicketExtension(nil) }
		case op.Kind == "T" && v == "uninit":
			setter("ticket", false, nil)
			call = func() { err = m.uc.SetSessionTicketExtension(&SessionTicketExtension{}) }
		case op.Kind == "T":
			setter("ticket", true, &vf20Inj{Kind: "ticket", Variant: "T-" + v, Session: sess, Ticket: sess.ticket})
			ext := &SessionTicketExtension{Session: sess, Ticket: sess.ticket, Initialized: true}
			call = func() { err = m.uc.SetSessionTicketExtension(ext) }
		case v == "nil": // SetSessionState(nil): "the body of session ticket extension will be unset"
			setter("ticket", true, &vf20Inj{Kind: "ticket", Variant: "S-nil"})
			call = func() { err = m.uc.SetSessionState(nil) }
		default:
			setter("ticket", true, &vf20Inj{Kind: "ticket", Variant: "S-" + v, Session: sess, Ticket: sess.ticket})
			css := &ClientSessionState{session: sess}
			call = func() { err = m.uc.SetSessionState(css) }
		}
	case "P":
		v := op.Variant
		var sess *SessionState
		if strings.HasPrefix(v, "real") {
			if sess = env.real13; sess == nil {
				v = strings.Replace(v, "real", "forged", 1)
			}
		}
		if strings.HasPrefix(v, "forged") {
			sess = env.forge13(op.Pick)
		}
		age := uint32(op.Pick)*2654435761 + 12345
		switch v {
		case "nil":
			isNilSetter = true
			call = func() { err = m.uc.SetPskExtension(nil) }
		case "uninit":
			setter("psk", false, nil)
			call = func() { err = m.uc.SetPskExtension(&UtlsPreSharedKeyExtension{}) }
		case "fake":
			label := make([]byte, 40+op.Pick%60)
			binder := make([]byte, 32)
			r := vfNewDetRand(env.seed+uint64(op.Pick), "fakepsk")
			r.Read(label)
			r.Read(binder)
			setter("psk", true, &vf20Inj{Kind: "psk", Variant: "P-fake", Ticket: label, Age: age, Binder: binder})
			ext := &FakePreSharedKeyExtension{Identities: []PskIdentity{{Label: label, ObfuscatedTicketAge: age}}, Binders: [][]byte{binder}}
			call = func() { err = m.uc.SetPskExtension(ext) }
		default:
			fields := strings.HasSuffix(v, "-fields")
			if fields {
				m.fieldsPsk = true
			}
			setter("psk", true, &vf20Inj{Kind: "psk", Variant: "P-" + v, Session: sess, Ticket: sess.ticket, Age: age, Fields: fields})
			ext := m.pskExt(sess, fields, age)
			call = func() { err = m.uc.SetPskExtension(ext) }
		}
	case "R":
		// SetClientRandom: "BuildHandshakeState() must be called before" - a documented edit of the built hello; the
		// session extensions (and the PSK binder, which covers the random) must follow at handshake start
		switch {
		case m.hsDone:
			m.demote("unspecified:after-handshake")
		case !m.built:
			m.demote("unspecified:client-random-before-build")
		}
		r := make([]byte, 32)
		vfNewDetRand(env.seed+uint64(op.Pick), "client-random").Read(r)
		call = func() { err = m.uc.SetClientRandom(r) }
	case "H":
		m.handshake(op)
		return
	}

	statusAtCall := m.status
	p := vfCatch(call)
	if p != nil {
		m.judgePanic(op, p)
		return
	}
	m.log = append(m.log, fmt.Sprintf("%s -> err=%v", op, err))
	switch {
	case isNilSetter:
		// documented no-op; without a cache the "session is disabled" error is equally documented
		if err != nil && m.cacheSet {
			m.fail("%s (documented no-op) returned %v", op, err)
		}
	case callForbidden != "":
		if err == nil {
			m.fail("%s is forbidden (%s) but returned nil without any failure", op, callForbidden)
		}
		m.st.Class("outcome:forbidden->error")
	case err != nil && m.needFail && (op.Kind == "W" || op.Kind == "B"):
		m.sawFail = true
		m.st.Class("outcome:session-for-missing-extension->error")
	case err != nil && statusAtCall == "allowed":
		m.fail("%s failed in an ordering the documentation allows: %v", op, err)
	}
}

func (m *vf20Machine) handshake(op vf20Op) {
	m.t.Helper()
	if m.hsDone {
		m.demote("unspecified:after-handshake")
		var err error
		if p := vfCatch(func() { err = m.uc.Handshake() }); p != nil {
			m.judgePanic(op, p)
		}
		_ = err
		return
	}
	m.built = true
	m.hsDone = true
	pair := m.pair
	cerr, serr, cpn, spn := vf20Run(pair)
	if spn != nil {
		m.fail("server panicked: %s", spn)
	}
	if cpn != nil {
		m.judgePanic(op, cpn)
		return
	}
	if cerr == errVfHang || serr == errVfHang {
		m.fail("Handshake did not return: client=%v server=%v", cerr, serr)
	}
	m.log = append(m.log, fmt.Sprintf("H -> client err=%v server err=%v", cerr, serr))
	if m.needFail && strings.HasPrefix(m.status, "unspecified:session-for-extension") {
		// error, or a completed handshake that does not use the session at all
		switch {
		case cerr != nil || m.sawFail:
			m.st.Class("outcome:session-for-missing-extension->error")
		default:
			m.st.Class("outcome:session-for-missing-extension->silently-dropped")
			hs := vfClientHellosOnWire(pair.CP.Written())
			if len(hs) > 0 && len(m.inj.Ticket) > 0 && bytes.Contains(hs[0], m.inj.Ticket) {
				m.fail("the spec lacks the extension but the injected ticket is on the wire")
			}
			if m.uc.ConnectionState().DidResume || pair.Srv.ConnectionState().DidResume {
				m.fail("the spec lacks the extension but the connection resumed")
			}
		}
		return
	}
	if m.status != "allowed" {
		return
	}
	// ---- strong oracle ----
	expectVers := m.env.srvMax
	if m.env.id.MaxVers < expectVers {
		expectVers = m.env.id.MaxVers
	}
	if cerr != nil && m.wFirst && !m.env.id.custom() && expectVers == VersionTLS13 && strings.Contains(cerr.Error(), "internal error") {
		m.st.Class("outcome:known:build-without-session-breaks-tls13")
		m.st.KnownOrViolation(m.t, vf20KeyWBreaks, "%s: BuildHandshakeStateWithoutSession followed by Handshake against a TLS 1.3 server fails: client=%v server=%v; ops=%s",
			m.env.id.Name, cerr, serr, strings.Join(m.trace, " "))
		return
	}
	if (cerr != nil || serr != nil) && m.env.id.custom() && m.userPsk {
		// same class as the empty session_ticket: the user's PSK extension (initialised, or initialised by utls from the
		// cache) never replaced the spec's in the extension list, but its binder patch is still applied to the
		// marshalled hello, which has no pre_shared_key at its end
		if hs := vfClientHellosOnWire(pair.CP.Written()); len(hs) == 1 {
			if ph := vfParseClientHello(hs[0]); ph.PSK() == nil || len(ph.Violations) > 0 {
				m.st.Class("outcome:known:custom-spec-session-not-sent")
				m.st.KnownOrViolation(m.t, vf20KeyCustomDropped, "%s (HelloCustom, ApplyPreset before the setter): the user's PSK extension is not sent and its binder patch corrupts the ClientHello (reference parser: %v); client=%v server=%v; ops=%s",
					m.env.id.Name, ph.Violations, cerr, serr, strings.Join(m.trace, " "))
				return
			}
		}
	}
	if cerr != nil || serr != nil {
		m.fail("handshake failed in an ordering the documentation allows: client=%v server=%v", cerr, serr)
	}
	hellos := vfClientHellosOnWire(pair.CP.Written())
	if len(hellos) != 1 {
		m.fail("%d ClientHellos on the wire", len(hellos))
	}
	h := vfParseClientHello(hellos[0])
	for _, v := range h.Violations {
		if strings.Contains(v, "pre_shared_key") || strings.Contains(v, "extension 41") || strings.Contains(v, "handshake length") || strings.Contains(v, "trailing") {
			m.fail("ClientHello malformed: %s", v)
		}
	}
	ccs, scs := m.uc.ConnectionState(), pair.Srv.ConnectionState()
	if ccs.Version != scs.Version || ccs.DidResume != scs.DidResume {
		m.fail("sides disagree: version %#x/%#x DidResume %v/%v", ccs.Version, scs.Version, ccs.DidResume, scs.DidResume)
	}
	if err := pair.Echo([]byte("ping-c20"), []byte("pong-c20")); err != nil {
		m.fail("application data failed after the handshake: %v", err)
	}
	inj := m.inj
	if inj == nil {
		m.st.Class("allowed:no-injection")
		return
	}
	m.st.Class("allowed:" + inj.Variant)
	wantResume := false
	switch inj.Kind {
	case "ticket":
		e := h.Ext(35)
		if e == nil {
			m.fail("session_ticket extension missing from the wire although the spec carries it")
		}
		if m.env.id.custom() && len(e.Body) == 0 && len(inj.Ticket) > 0 {
			m.st.Class("outcome:known:custom-spec-session-not-sent")
			m.st.KnownOrViolation(m.t, vf20KeyCustomDropped, "%s (HelloCustom, ApplyPreset before the setter): the injected %d-byte session ticket is not sent, the session_ticket extension on the wire is empty; ops=%s",
				m.env.id.Name, len(inj.Ticket), strings.Join(m.trace, " "))
			return
		}
		if !bytes.Equal(e.Body, inj.Ticket) {
			m.fail("session ticket on the wire (%d bytes) is not the injected one (%d bytes)", len(e.Body), len(inj.Ticket))
		}
		if p := h.PSK(); p != nil {
			m.fail("a TLS 1.2 ticket was injected but the hello also carries %d PSK identities", len(p.Identities))
		}
		wantResume = inj.Session != nil && ccs.Version == VersionTLS12
	case "psk":
		p := h.PSK()
		if p == nil && m.env.id.custom() {
			m.st.Class("outcome:known:custom-spec-session-not-sent")
			m.st.KnownOrViolation(m.t, vf20KeyCustomDropped, "%s (HelloCustom, ApplyPreset before the setter): the injected PSK identity is not sent, no pre_shared_key on the wire; ops=%s",
				m.env.id.Name, strings.Join(m.trace, " "))
			return
		}
		if p == nil {
			m.fail("pre_shared_key missing from the wire although a PSK was injected")
		}
		if h.Exts[len(h.Exts)-1].Type != 41 {
			m.fail("pre_shared_key is not last")
		}
		if len(p.Identities) != 1 || !bytes.Equal(p.Identities[0], inj.Ticket) || p.Ages[0] != inj.Age {
			m.fail("PSK identity on the wire is not the injected one (n=%d, age %d want %d)", len(p.Identities), p.Ages[0], inj.Age)
		}
		if inj.Binder != nil && (len(p.Binders) != 1 || !bytes.Equal(p.Binders[0], inj.Binder)) {
			m.fail("FakePreSharedKeyExtension binder not on the wire verbatim")
		}
		if e := h.Ext(35); e != nil && len(e.Body) > 0 {
			m.fail("a PSK was injected but the hello also carries a %d-byte session ticket", len(e.Body))
		}
		wantResume = inj.Session != nil && ccs.Version == VersionTLS13
	}
	if wantResume != ccs.DidResume {
		m.fail("injected %s session (version %#x) to a server holding the ticket key, negotiated %#x: DidResume=%v, expected %v",
			inj.Variant, vf20SessVers(inj.Session), ccs.Version, ccs.DidResume, wantResume)
	}
	if ccs.DidResume {
		m.st.Class("outcome:resumed-with-injected-session")
		if ccs.Version == VersionTLS12 {
			if ccs.CipherSuite != inj.Session.cipherSuite || scs.CipherSuite != inj.Session.cipherSuite {
				m.fail("resumed with suite %#x/%#x, the injected session has %#x", ccs.CipherSuite, scs.CipherSuite, inj.Session.cipherSuite)
			}
			// master secret as observed on the *server*: it re-wraps the secret it resumed with into the new ticket
			if !m.env.keylog.Has(inj.Session.secret) {
				m.fail("the server did not resume with the injected master secret")
			}
			if !bytes.Equal(m.uc.HandshakeState.MasterSecret, inj.Session.secret) {
				m.fail("client master secret differs from the injected one")
			}
		}
	} else {
		m.st.Class("outcome:full-handshake")
	}
	m.st.NonTrivial(fmt.Sprintf("%s|%#x|%s", m.env.id.Name, m.env.srvMax, strings.Join(m.trace, " ")))
	m.st.Sample(map[string]any{"identity": m.env.id.Name, "srvMax": fmt.Sprintf("%#x", m.env.srvMax), "ops": strings.Join(m.trace, " "),
		"injected": inj.Variant, "resumed": ccs.DidResume})
}

func vf20SessVers(s *SessionState) uint16 {
	if s == nil {
		return 0
	}
	return s.version
}

func (m *vf20Machine) finish() {
	m.t.Helper()
	if !m.hsDone && !m.dead {
		m.step(vf20Op{Kind: "H"})
	}
	m.pair.Close()
	m.st.Eval()
	st := m.status
	if i := strings.Index(st, ":"); i > 0 && strings.HasPrefix(st, "unspecified") {
		st = "unspecified"
	}
	m.st.Class("sequence:" + st)
}

func vf20Run(p *vfPair) (cerr, serr error, cpanic, spanic *vfPanic) {
	dl := time.Now().Add(vfIOTimeout)
	p.CP.SetDeadline(dl)
	p.SP.SetDeadline(dl)
	type res struct {
		err error
		pn  *vfPanic
	}
	cdone := make(chan res, 1)
	sdone := make(chan res, 1)
	go func() {
		var err error
		pn := vfCatch(func() { err = p.Cli.Handshake() })
		if err != nil || pn != nil {
			p.CP.Close()
		}
		cdone <- res{err, pn}
	}()
	go func() {
		var err error
		pn := vfCatch(func() { err = p.Srv.Handshake() })
		if err != nil || pn != nil {
			p.SP.Close()
		}
		sdone <- res{err, pn}
	}()
	timer := time.NewTimer(vfIOTimeout + 10*time.Second)
	defer timer.Stop()
	for i := 0; i < 2; i++ {
		select {
		case r := <-cdone:
			cerr, cpanic = r.err, r.pn
			cdone = nil
		case r := <-sdone:
			serr, spanic = r.err, r.pn
			sdone = nil
		case <-timer.C:
			if cdone != nil {
				cerr = errVfHang
			}
			if sdone != nil {
				serr = errVfHang
			}
			return
		}
	}
	return
}

// ---- generators ----

var vf20Bases = []vfParrot{
	{"HelloChrome_100_PSK", HelloChrome_100_PSK}, {"HelloChrome_112_PSK_Shuf", HelloChrome_112_PSK_Shuf},
	{"HelloChrome_114_Padding_PSK_Shuf", HelloChrome_114_Padding_PSK_Shuf}, {"HelloChrome_115_PQ_PSK", HelloChrome_115_PQ_PSK},
}

func vf20GenIdent(rt *rapid.T) *vf20Ident {
	var base vfParrot
	drop := map[string]bool{}
	switch k := rapid.IntRange(0, 9).Draw(rt, "ident_kind"); {
	case k < 5:
		base = vf20Bases[rapid.IntRange(0, len(vf20Bases)-1).Draw(rt, "psk_parrot")]
	case k < 8:
		base = vfGenParrot(rt, "parrot")
	default:
		base = vf20Bases[rapid.IntRange(0, len(vf20Bases)-1).Draw(rt, "psk_parrot")]
		mask := rapid.IntRange(1, 3).Draw(rt, "drop")
		drop["ticket"] = mask&1 != 0
		drop["psk"] = mask&2 != 0
	}
	id, err := vf20NewIdent(base, drop)
	if err != nil {
		rt.Fatalf("identity: %v", err)
	}
	return id
}

func vf20DrawVariant(rt *rapid.T, kind string) (string, int) {
	vs := vf20Variants[kind]
	return vs[rapid.IntRange(0, len(vs)-1).Draw(rt, kind+"_variant")], rapid.IntRange(0, 1000).Draw(rt, kind+"_pick")
}

func TestVerifC20StateMachine(t *testing.T) {
	st := vfNewStats(t, "C20")
	rapid.Check(t, func(rt *rapid.T) {
		id := vf20GenIdent(rt)
		srvMax := []uint16{VersionTLS12, VersionTLS13}[rapid.IntRange(0, 1).Draw(rt, "srvmax")]
		env := vf20NewEnv(id, srvMax, rapid.Uint64().Draw(rt, "seed"))
		m, err := vf20NewMachine(st, rt, env, rapid.IntRange(0, 9).Draw(rt, "cache_in_config") < 6)
		if err != nil {
			rt.Fatalf("setup: %v", err)
		}
		act := func(kind string) func(*rapid.T) {
			return func(rt *rapid.T) {
				op := vf20Op{Kind: kind}
				if _, ok := vf20Variants[kind]; ok {
					op.Variant, op.Pick = vf20DrawVariant(rt, kind)
				}
				if kind == "R" {
					op.Pick = rapid.IntRange(0, 255).Draw(rt, "random_pick")
				}
				m.t = rt
				m.step(op)
			}
		}
		rt.Repeat(map[string]func(*rapid.T){
			"SetSessionCache":                   act("C"),
			"BuildHandshakeStateWithoutSession": act("W"),
			"SetSessionTicketExtension":         act("T"),
			"SetPskExtension":                   act("P"),
			"SetSessionState":                   act("S"),
			"BuildHandshakeState":               act("B"),
			"SetClientRandom":                   act("R"),
			"Handshake":                         act("H"),
		})
		m.t = rt
		m.finish()
	})
}

// ---- bounded exhaustive enumeration of op strings + the directed known case ----

func vf20Alphabet() []vf20Op {
	var out []vf20Op
	for _, k := range []string{"C", "W", "T", "P", "S", "B", "H"} {
		vs, ok := vf20Variants[k]
		if !ok {
			out = append(out, vf20Op{Kind: k})
			continue
		}
		for i, v := range vs {
			if k == "C" && v == "empty" {
				continue
			}
			out = append(out, vf20Op{Kind: k, Variant: v, Pick: i})
		}
	}
	return out
}

func vf20RunSeq(t *testing.T, st *vfStats, env *vf20Env, cacheInConfig bool, ops []vf20Op) {
	t.Helper()
	m, err := vf20NewMachine(st, t, env, cacheInConfig)
	if err != nil {
		t.Fatalf("setup: %v", err)
	}
	for _, op := range ops {
		m.step(op)
	}
	m.finish()
}

func TestVerifC20Exhaustive(t *testing.T) {
	if sh := os.Getenv("VERIF_SHARD"); sh != "" && sh != "0" {
		t.Skip("deterministic sweep: runs in shard 0 only")
	}
	st := vfNewStats(t, "C20")
	alpha := vf20Alphabet()
	maxLen := 2
	idents := []struct {
		p    vfParrot
		drop map[string]bool
	}{{vf20Bases[0], nil}, {vfParrot{"HelloFirefox_105", HelloFirefox_105}, nil}}
	if vfThorough() {
		maxLen = 3
		idents = append(idents, struct {
			p    vfParrot
			drop map[string]bool
		}{vf20Bases[1], nil}, struct {
			p    vfParrot
			drop map[string]bool
		}{vf20Bases[0], map[string]bool{"ticket": true}})
	}
	n := 0
	for _, ip := range idents {
		id, err := vf20NewIdent(ip.p, ip.drop)
		if err != nil {
			t.Fatal(err)
		}
		for _, sv := range []uint16{VersionTLS12, VersionTLS13} {
			env := vf20NewEnv(id, sv, uint64(sv)+7)
			for _, cacheCfg := range []bool{true, false} {
				var rec func(prefix []vf20Op)
				rec = func(prefix []vf20Op) {
					vf20RunSeq(t, st, env, cacheCfg, prefix)
					n++
					if len(prefix) == maxLen {
						return
					}
					for _, op := range alpha {
						rec(append(append([]vf20Op(nil), prefix...), op))
					}
				}
				rec(nil)
			}
		}
	}
	st.Extra("exhaustive_sequences", n)
	st.Extra("exhaustive_max_len", maxLen)
}

// canonical orderings from the documentation, on every parrot that carries the extension
func TestVerifC20Directed(t *testing.T) {
	st := vfNewStats(t, "C20")
	seqs := [][]vf20Op{
		{{Kind: "T", Variant: "forged"}, {Kind: "H"}},
		{{Kind: "W"}, {Kind: "T", Variant: "forged", Pick: 1}, {Kind: "B"}, {Kind: "H"}},
		{{Kind: "S", Variant: "forged", Pick: 2}, {Kind: "B"}, {Kind: "B"}, {Kind: "H"}},
		{{Kind: "T", Variant: "real"}, {Kind: "H"}},
		{{Kind: "P", Variant: "forged"}, {Kind: "H"}},
		{{Kind: "W"}, {Kind: "W"}, {Kind: "P", Variant: "real"}, {Kind: "B"}, {Kind: "H"}},
		{{Kind: "P", Variant: "forged", Pick: 1}, {Kind: "B"}, {Kind: "B"}, {Kind: "H"}},
		{{Kind: "P", Variant: "fake", Pick: 3}, {Kind: "H"}},
		{{Kind: "P", Variant: "forged", Pick: 2}, {Kind: "B"}, {Kind: "R", Pick: 1}, {Kind: "H"}},
		{{Kind: "P", Variant: "real"}, {Kind: "B"}, {Kind: "R", Pick: 2}, {Kind: "B"}, {Kind: "R", Pick: 3}, {Kind: "H"}},
		{{Kind: "T", Variant: "forged", Pick: 1}, {Kind: "B"}, {Kind: "R", Pick: 4}, {Kind: "H"}},
		{{Kind: "W"}, {Kind: "P", Variant: "forged"}, {Kind: "B"}, {Kind: "R", Pick: 5}, {Kind: "H"}},
		{{Kind: "P", Variant: "forged-fields"}, {Kind: "B"}, {Kind: "H"}}, // the known class
		{{Kind: "W"}, {Kind: "P", Variant: "real-fields"}, {Kind: "H"}},   // the known class
		{{Kind: "B"}, {Kind: "T", Variant: "forged"}, {Kind: "H"}},        // forbidden: after build
		{{Kind: "B"}, {Kind: "P", Variant: "forged"}, {Kind: "H"}},        // forbidden: after build
	}
	for _, p := range vfParrots {
		id, err := vf20NewIdent(p, nil)
		if err != nil {
			t.Fatal(err)
		}
		for _, sv := range []uint16{VersionTLS12, VersionTLS13} {
			env := vf20NewEnv(id, sv, uint64(sv)+uint64(len(p.Name)))
			for _, s := range seqs {
				vf20RunSeq(t, st, env, true, s)
			}
			// README "Custom Handshake": 3) extensions (ApplyPreset), 4) set session: HelloCustom, preset applied before the setter
			for _, drop := range []string{"psk", "ticket"} {
				if cid, err := vf20NewIdent(p, map[string]bool{drop: true}); err == nil && ((drop == "psk" && cid.HasTicket && id.HasPSK) || (drop == "ticket" && cid.HasPSK)) {
					cenv := vf20NewEnv(cid, sv, uint64(sv)+3)
					if drop == "psk" {
						vf20RunSeq(t, st, cenv, true, []vf20Op{{Kind: "T", Variant: "forged"}, {Kind: "H"}})
						vf20RunSeq(t, st, cenv, true, []vf20Op{{Kind: "S", Variant: "real"}, {Kind: "B"}, {Kind: "H"}})
					} else {
						vf20RunSeq(t, st, cenv, true, []vf20Op{{Kind: "P", Variant: "forged"}, {Kind: "H"}})
						vf20RunSeq(t, st, cenv, true, []vf20Op{{Kind: "W"}, {Kind: "P", Variant: "real"}, {Kind: "H"}})
					}
				}
			}
			// README example: SetSessionState without a cache => "session is disabled"
			vf20RunSeq(t, st, env, false, []vf20Op{{Kind: "S", Variant: "forged"}, {Kind: "H"}})
			vf20RunSeq(t, st, env, false, []vf20Op{{Kind: "C", Variant: "warm"}, {Kind: "S", Variant: "forged"}, {Kind: "H"}})
		}
	}
}
