//go:build verif

package tls

// C33 (extension): post-handshake input after a CLEAN handshake. In the mutated-flight test the drawn mutations usually
// end the handshake, so post-handshake messages are seldom processed; here the TLS 1.3 handshake is left alone, the
// client has (or has not) a session cache, and the server then sends 1-4 post-handshake messages - well-formed
// NewSessionTickets with boundary field values (lifetime 0 / 7 days / beyond, 0..255-byte nonce, 1..4000-byte ticket,
// early_data and unknown extensions), KeyUpdates (valid and invalid), CertificateRequests, unknown types, oversized
// bodies - followed by application data. Oracle: the client's Reads return (data, error or EOF); no panic, no hang.

import (
	"bytes"
	"fmt"
	"testing"

	"pgregory.net/rapid"
)

func vf33GenNST(rt *rapid.T, l string) ([]byte, string) {
	b := &vsrvB{}
	lt := rapid.SampledFrom([]uint32{0, 1, 7200, 604800, 604801, 0xffffffff}).Draw(rt, l+"_lifetime")
	b.u16(uint16(lt >> 16))
	b.u16(uint16(lt))
	b.u16(0x1234)
	b.u16(0x5678)
	nl := rapid.SampledFrom([]int{0, 1, 8, 32, 254, 255}).Draw(rt, l+"_nonce")
	b.vec8(bytes.Repeat([]byte{0x6e}, nl))
	tl := rapid.SampledFrom([]int{1, 2, 32, 255, 256, 4000}).Draw(rt, l+"_ticket")
	b.vec16(bytes.Repeat([]byte{0x74}, tl))
	var exts []vfExt
	switch rapid.IntRange(0, 3).Draw(rt, l+"_exts") {
	case 1:
		exts = append(exts, vfExt{Type: 42, Body: []byte{0xff, 0xff, 0xff, 0xff}})
	case 2:
		exts = append(exts, vfExt{Type: 42, Body: []byte{0, 0, 0, 0}}, vfExt{Type: 0x7a7a, Body: []byte{1, 2, 3}})
	case 3:
		exts = append(exts, vfExt{Type: 0x1234})
	}
	b.vec16(vsrvExts(exts))
	return vsrvMsg(typeNewSessionTicket, b.b), fmt.Sprintf("NewSessionTicket(lifetime=%d,nonce=%d,ticket=%d,exts=%d)", lt, nl, tl, len(exts))
}

func TestVerifC33PostHandshake(t *testing.T) {
	st := vfNewStats(t, "C33")
	ids := []ClientHelloID{HelloChrome_120, HelloChrome_133, HelloFirefox_120, HelloSafari_16_0, HelloIOS_14, HelloGolang, HelloChrome_100_PSK, HelloRandomizedALPN}
	rapid.Check(t, func(rt *rapid.T) {
		id := ids[rapid.IntRange(0, len(ids)-1).Draw(rt, "id")]
		withCache := rapid.IntRange(0, 3).Draw(rt, "cache") != 0
		sni := "post.c33.test"
		st.Eval()
		cp, sp := vfPipe()
		ccfg := vfClientConfig(sni)
		ccfg.OmitEmptyPsk = true
		if withCache {
			ccfg.ClientSessionCache = NewLRUClientSessionCache(4)
		}
		uc := UClient(cp, ccfg, id)
		scfg := vfServerConfig("ecdsa", sni)
		scfg.MinVersion = VersionTLS13
		scfg.SessionTicketsDisabled = rapid.Bool().Draw(rt, "server_tickets_off")
		srv := Server(sp, scfg)
		var msgs [][]byte
		desc := ""
		for i, n := 0, rapid.IntRange(1, 4).Draw(rt, "nmsgs"); i < n; i++ {
			l := fmt.Sprintf("m%d", i)
			switch rapid.IntRange(0, 9).Draw(rt, l+"_kind") {
			case 0, 1, 2, 3, 4:
				m, d := vf33GenNST(rt, l)
				msgs = append(msgs, m)
				desc += " " + d
			case 5:
				v := byte(rapid.IntRange(0, 2).Draw(rt, l+"_ku"))
				msgs = append(msgs, vsrvMsg(typeKeyUpdate, []byte{v}))
				desc += fmt.Sprintf(" KeyUpdate(%d)", v)
				if v <= 1 {
					// a real KeyUpdate changes the server's sending keys: follow it so that later messages stay readable
					msgs = append(msgs, nil)
				}
			case 6:
				msgs = append(msgs, vsrvMsg(typeKeyUpdate, rapid.SliceOfN(rapid.Byte(), 0, 5).Draw(rt, l+"_kubody")))
				desc += " KeyUpdate(malformed)"
			case 7:
				msgs = append(msgs, vsrvMsg(typeCertificateRequest, rapid.SliceOfN(rapid.Byte(), 0, 40).Draw(rt, l+"_cr")))
				desc += " CertificateRequest(post-handshake)"
			case 8:
				typ := rapid.SampledFrom([]uint8{typeEncryptedExtensions, typeFinished, typeCertificate, 25, 99, 0, 254}).Draw(rt, l+"_typ")
				msgs = append(msgs, vsrvMsg(typ, rapid.SliceOfN(rapid.Byte(), 0, 60).Draw(rt, l+"_body")))
				desc += fmt.Sprintf(" type-%d", typ)
			default:
				msgs = append(msgs, vsrvMsg(typeNewSessionTicket, make([]byte, rapid.SampledFrom([]int{0, 3, 70000}).Draw(rt, l+"_big"))))
				desc += " NewSessionTicket(zero-filled)"
			}
		}
		out := vf33Drive(uc, cp, sp, func() {
			if err := srv.Handshake(); err != nil {
				return
			}
			suite := cipherSuiteTLS13ByID(srv.cipherSuite)
			for _, m := range msgs {
				if m == nil {
					srv.out.Lock()
					srv.out.setTrafficSecret(suite, QUICEncryptionLevelInitial, suite.nextTrafficSecret(srv.out.trafficSecret))
					srv.out.Unlock()
					continue
				}
				srv.writeHandshakeRecord(&vsrvRaw{m}, nil)
			}
			srv.Write([]byte("data after the post-handshake messages"))
		})
		what := fmt.Sprintf("%s (session cache %v) | clean TLS 1.3 handshake, then:%s", id.Str(), withCache, desc)
		vf33Judge(rt, st, what, out)
		if out.CliErr != nil {
			st.Class("post:handshake-failed")
			return
		}
		st.Class(fmt.Sprintf("post:cache=%v", withCache))
		st.NonTrivial(fmt.Sprintf("post|%s|%v|%s", id.Str(), withCache, desc))
		st.Sample(map[string]any{"client": id.Str(), "post_handshake": desc, "read_error": fmt.Sprint(out.ReadErr)})
	})
}
