//go:build verif

package tls

// C23 - QUIC clients (UQUICConn) complete the handshake through the event API and never hang.
//
// A UQUICConn built from a drawn TLS 1.3-only QUIC ClientHello spec is paired with an upstream QUICServer; the harness
// plays the QUIC transport: it drains events with NextEvent and carries QUICWriteData to the peer's HandleData in an
// order (which side, how many events, how the CRYPTO stream is chunked) drawn by rapid. Oracles: a small reference
// model of the expected outcome (group selection / HRR / ALPN / trust), the reference ClientHello parser, an event-log
// invariant checker, cross-peer secret agreement, and a hang oracle for every API call.

import (
	"bytes"
	"context"
	"fmt"
	"os"
	"regexp"
	"runtime"
	"sort"
	"strings"
	"testing"
	"time"

	"pgregory.net/rapid"
)

const vf23KnownStartHang = "C23:start-hangs-when-build-fails"

// hang oracle bound (the calls take micro- to milliseconds)
const vf23HangBound = 10 * time.Second

// ---------------------------------------------------------------------------------------------------------------
// hang oracle

type vf23CallRes struct {
	err      error
	returned bool
	stuck    bool // did not return AND its goroutine is parked with no handshake goroutine able to make progress
	elapsed  time.Duration
	dump     string
}

var vf23GoHdr = regexp.MustCompile(`^goroutine (\d+) \[([^\]]*)\]:`)

func vf23GoID() string {
	buf := make([]byte, 64)
	buf = buf[:runtime.Stack(buf, false)]
	if m := vf23GoHdr.FindSubmatch(buf); m != nil {
		return string(m[1])
	}
	return "?"
}

func vf23Parked(state string) bool {
	for _, p := range []string{"chan receive", "chan send", "select", "sync.Mutex.Lock", "semacquire", "sync.Cond.Wait", "sync.RWMutex"} {
		if strings.HasPrefix(state, p) {
			return true
		}
	}
	return false
}

// vf23Stuck inspects a dump of all goroutines: the caller goroutine must be parked inside frame, and every goroutine
// that runs a TLS handshake (the only party that can send on / close the QUIC channels) must be absent or parked too.
func vf23Stuck(goid, frame string) (bool, string) {
	buf := make([]byte, 4<<20)
	buf = buf[:runtime.Stack(buf, true)]
	callerParked := false
	progress := false
	var relevant []string
	for _, blk := range strings.Split(string(buf), "\n\n") {
		m := vf23GoHdr.FindStringSubmatch(blk)
		if m == nil {
			continue
		}
		if m[1] == goid {
			relevant = append(relevant, blk)
			if strings.Contains(blk, frame) && vf23Parked(m[2]) {
				callerParked = true
			}
			continue
		}
		if strings.Contains(blk, "handshakeContext") {
			relevant = append(relevant, blk)
			if !vf23Parked(m[2]) {
				progress = true
			}
		}
	}
	return callerParked && !progress, strings.Join(relevant, "\n\n")
}

// vf23Call runs one API call under the hang oracle. fast: report "stuck" as soon as the structural condition has been
// observed on three consecutive dumps (used only for the listed known finding, to keep the search going); otherwise
// the call must stay unreturned for the whole bound before the structure is examined.
func vf23Call(bound time.Duration, fast bool, frame string, f func() error) vf23CallRes {
	done := make(chan error, 1)
	gid := make(chan string, 1)
	go func() {
		gid <- vf23GoID()
		done <- f()
	}()
	id := <-gid
	start := time.Now()
	quick := time.NewTimer(40 * time.Millisecond)
	defer quick.Stop()
	select {
	case err := <-done:
		return vf23CallRes{err: err, returned: true}
	case <-quick.C:
	}
	tick := time.NewTicker(25 * time.Millisecond)
	defer tick.Stop()
	consecutive := 0
	for {
		select {
		case err := <-done:
			return vf23CallRes{err: err, returned: true, elapsed: time.Since(start)}
		case <-tick.C:
			el := time.Since(start)
			if !fast && el < bound {
				continue
			}
			st, dump := vf23Stuck(id, frame)
			if st {
				consecutive++
			} else {
				consecutive = 0
			}
			if consecutive >= 3 {
				return vf23CallRes{stuck: true, elapsed: el, dump: dump}
			}
			if el >= bound+2*time.Second {
				return vf23CallRes{stuck: false, elapsed: el, dump: dump}
			}
		}
	}
}

// vf23Inconclusive: an environment problem (a call that neither returned nor is provably parked). The driver has no
// first-class channel for this from inside a test, so the process ends the way a test timeout does (exit 2 there).
func vf23Inconclusive(msg string) {
	fmt.Fprintf(os.Stderr, "panic: test timed out (C23 harness: %s)\n", msg)
	os.Exit(3)
}

// vf23Release unparks a goroutine the harness has classified as hung for good (no handshake goroutine exists any more),
// so that no goroutine outlives the case.
func vf23Release(q *UQUICConn) {
	vfCatch(func() { close(q.conn.quic.blockedc) })
	vfCatch(func() { close(q.conn.quic.signalc) })
}

// ---------------------------------------------------------------------------------------------------------------
// case description (plain data, so a case can be executed twice)

type vf23TP struct {
	Kind string
	ID   uint64
	Num  uint64
	Raw  []byte
}

type vf23Case struct {
	Name        string
	Suites      []uint16
	GreaseSuite bool
	Groups      []CurveID
	GreaseGroup bool
	Shares      []CurveID
	GreaseShare bool
	ALPN        []string
	TPs         []vf23TP
	Extras      []string
	OrderKeys   []int
	CfgMinVer   bool
	SpecVers    bool
	RandSeed    uint64
	ClientCache bool

	KeyType    string
	SrvCurves  []CurveID
	SrvProtos  []string
	SrvTP      []byte
	SrvTPLate  bool
	SendTicket bool

	Fault     string
	FaultSub  string
	FaultStep int
	CloseSrv1 bool // on teardown close the server first

	Pump      []int // schedule: kind*1000 + n*... see vf23Run
	TailChunk int   // after the schedule: CRYPTO data is delivered in pieces of at most this many bytes (0 = whole)
	TailDepth bool  // after the schedule: one event at a time, CRYPTO data handed to the peer before the next NextEvent call
}

var vf23AllGroups = []CurveID{X25519, CurveP256, CurveP384, CurveP521, X25519MLKEM768}
var vf23AllSuites = []uint16{TLS_AES_128_GCM_SHA256, TLS_AES_256_GCM_SHA384, TLS_CHACHA20_POLY1305_SHA256}
var vf23Protos = []string{"h3", "hq-interop", "vf-a", "vf-b"}
var vf23ExtraKinds = []string{"status", "sct", "grease1", "grease2", "padding", "compresscert", "alps", "pskmodes", "ecpoints", "renego", "rsl"}

func vf23Subset[T any](rt *rapid.T, label string, pool []T, min int) []T {
	perm := rapid.Permutation(pool).Draw(rt, label+"_perm")
	n := rapid.IntRange(min, len(pool)).Draw(rt, label+"_n")
	return append([]T(nil), perm[:n]...)
}

func vf23IsClassical(g CurveID) bool { return g != X25519MLKEM768 }

func vf23GenTPs(rt *rapid.T) []vf23TP {
	n := rapid.IntRange(0, 7).Draw(rt, "tp_n")
	var out []vf23TP
	numIDs := []uint64{0x1, 0x3, 0x4, 0x5, 0x6, 0x7, 0x8, 0x9, 0xb, 0xe, 0x20}
	for i := 0; i < n; i++ {
		l := fmt.Sprintf("tp%d", i)
		switch rapid.IntRange(0, 5).Draw(rt, l+"_k") {
		case 0, 1, 2:
			id := numIDs[rapid.IntRange(0, len(numIDs)-1).Draw(rt, l+"_id")]
			num := rapid.SampledFrom([]uint64{0, 1, 63, 64, 16383, 16384, 1<<30 - 1, 1 << 30, 1<<62 - 1, 1200, 65527}).Draw(rt, l+"_num")
			out = append(out, vf23TP{Kind: "num", ID: id, Num: num})
		case 3:
			out = append(out, vf23TP{Kind: "scid", ID: 0xf, Raw: rapid.SliceOfN(rapid.Byte(), 0, 20).Draw(rt, l+"_cid")})
		case 4:
			out = append(out, vf23TP{Kind: "fake", ID: rapid.Uint64Range(0x40, 1<<40).Draw(rt, l+"_fid"), Raw: rapid.SliceOfN(rapid.Byte(), 0, 40).Draw(rt, l+"_fv")})
		case 5:
			out = append(out, vf23TP{Kind: "flag", ID: []uint64{0xc, 0x2ab2}[rapid.IntRange(0, 1).Draw(rt, l+"_f")]})
		}
	}
	return out
}

func vf23GenCase(rt *rapid.T) *vf23Case {
	c := &vf23Case{}
	c.Name = vfGenDNSName(rt, "name")
	c.Suites = vf23Subset(rt, "suites", vf23AllSuites, 1)
	c.GreaseSuite = rapid.Bool().Draw(rt, "grease_suite")
	c.Groups = vf23Subset(rt, "groups", vf23AllGroups, 1)
	c.GreaseGroup = rapid.Bool().Draw(rt, "grease_group")
	// key shares: exactly one classical group, plus the hybrid whenever the hybrid group is offered. Outside this
	// domain the TLS 1.3 client itself gives up, QUIC or not (see notes/C23.md: empty share list or hybrid-only share
	// => "internal error" on the ServerHello; HelloRetryRequest selecting X25519MLKEM768 => "unsupported curve"); a
	// server choosing a non-first classical share is property C10's finding.
	var classical []CurveID
	for _, g := range c.Groups {
		if vf23IsClassical(g) {
			classical = append(classical, g)
		}
	}
	if len(classical) == 0 {
		c.Groups = append(c.Groups, X25519)
		classical = []CurveID{X25519}
	}
	pick := classical[0]
	if rapid.IntRange(0, 2).Draw(rt, "share_mode") == 0 {
		pick = classical[rapid.IntRange(0, len(classical)-1).Draw(rt, "share_idx")]
	}
	if pick != X25519 {
		// the hybrid share is only usable next to an X25519 share (the client keeps one classical private key and
		// uses it for the X25519 half: "invalid server key share" otherwise - the C10/C18 key-share finding)
		var ng []CurveID
		for _, g := range c.Groups {
			if vf23IsClassical(g) {
				ng = append(ng, g)
			}
		}
		c.Groups = ng
	}
	for _, g := range c.Groups { // shares in the order of the group list
		if g == pick || !vf23IsClassical(g) {
			c.Shares = append(c.Shares, g)
		}
	}
	c.GreaseShare = c.GreaseGroup && rapid.Bool().Draw(rt, "grease_share")
	if rapid.IntRange(0, 3).Draw(rt, "alpn_on") > 0 {
		c.ALPN = vf23Subset(rt, "alpn", vf23Protos, 1)
	}
	c.TPs = vf23GenTPs(rt)
	c.Extras = vf23Subset(rt, "extras", vf23ExtraKinds, 0)
	c.OrderKeys = rapid.SliceOfN(rapid.IntRange(0, 1000), 24, 24).Draw(rt, "order")
	c.CfgMinVer = rapid.Bool().Draw(rt, "cfg_minver")
	c.SpecVers = rapid.Bool().Draw(rt, "spec_vers")
	c.RandSeed = rapid.Uint64().Draw(rt, "rand_seed")
	c.ClientCache = rapid.Bool().Draw(rt, "client_cache")

	c.KeyType = rapid.SampledFrom([]string{"ecdsa", "ecdsa", "rsa", "ed25519"}).Draw(rt, "keytype")
	c.SrvTP = rapid.SliceOfN(rapid.Byte(), 0, 60).Draw(rt, "srv_tp")
	c.SrvTPLate = rapid.Bool().Draw(rt, "srv_tp_late")
	c.SendTicket = rapid.Bool().Draw(rt, "send_ticket")
	c.CloseSrv1 = rapid.Bool().Draw(rt, "close_srv_first")

	// server curves: by default something that intersects the client's groups; biased towards forcing a HRR
	switch rapid.IntRange(0, 3).Draw(rt, "srv_curves_mode") {
	case 0:
		c.SrvCurves = nil // library default
	case 1: // exactly one of the client's groups
		c.SrvCurves = []CurveID{c.Groups[rapid.IntRange(0, len(c.Groups)-1).Draw(rt, "srv_curve_idx")]}
	default:
		c.SrvCurves = vf23Subset(rt, "srv_curves", vf23AllGroups, 1)
		if len(vf23Mutual(c.SrvCurves, c.Groups)) == 0 {
			c.SrvCurves = append(c.SrvCurves, c.Groups[0])
		}
	}
	// server ALPN: compatible by default
	if len(c.ALPN) > 0 {
		c.SrvProtos = vf23Subset(rt, "srv_protos", vf23Protos, 1)
		if len(vf23MutualS(c.SrvProtos, c.ALPN)) == 0 {
			c.SrvProtos = append(c.SrvProtos, c.ALPN[0])
		}
	}

	f := rapid.IntRange(0, 99).Draw(rt, "fault")
	switch {
	case f < 42:
		c.Fault = "none"
	case f < 54:
		c.Fault = "unbuildable"
		c.FaultSub = rapid.SampledFrom([]string{"noname-parrot", "badprotos-parrot", "noname-golang", "two-paddings-custom", "noname-custom"}).Draw(rt, "unbuildable_kind")
		c.FaultStep = rapid.IntRange(0, len(vfParrots)-1).Draw(rt, "parrot")
	case f < 61:
		c.Fault = "srv-no-group"
		var other []CurveID
		for _, g := range vf23AllGroups {
			if !vf23HasGroup(c.Groups, g) {
				other = append(other, g)
			}
		}
		if len(other) == 0 { // the client offers everything: withdraw one classical group it sends no share for
			var ng []CurveID
			for _, g := range c.Groups {
				if len(other) == 0 && vf23IsClassical(g) && !vf23HasGroup(c.Shares, g) {
					other = []CurveID{g}
					continue
				}
				ng = append(ng, g)
			}
			c.Groups = ng
		}
		c.SrvCurves = other
	case f < 69:
		c.Fault = "alpn-mismatch"
		switch {
		case len(c.ALPN) == 0:
			c.FaultSub = "server-only"
			c.SrvProtos = []string{"h3"}
		case rapid.Bool().Draw(rt, "alpn_client_only"):
			c.FaultSub = "client-only"
			c.SrvProtos = nil
		default:
			c.FaultSub = "disjoint"
			c.SrvProtos = nil
			for _, p := range vf23Protos {
				if !vf23HasStr(c.ALPN, p) {
					c.SrvProtos = append(c.SrvProtos, p)
				}
			}
			if len(c.SrvProtos) == 0 {
				c.SrvProtos = []string{"vf-none"}
			}
		}
	case f < 76:
		c.Fault = "untrusted"
	case f < 86:
		c.Fault = "cancel"
		c.FaultStep = rapid.IntRange(0, 14).Draw(rt, "fault_step")
	case f < 92:
		c.Fault = "close"
		c.FaultStep = rapid.IntRange(0, 14).Draw(rt, "fault_step")
	case f < 95:
		// the transport hands the client CRYPTO data at another encryption level than the one it is reading at (packet
		// reordering, a late retransmission): HandleData returns an error, and Close returns afterwards
		c.Fault = "wrong-level"
		c.FaultStep = rapid.IntRange(1, 14).Draw(rt, "fault_step")
		c.FaultSub = rapid.SampledFrom([]string{"application", "handshake", "early", "initial"}).Draw(rt, "wrong_level")
	default:
		c.Fault = "srv-close"
		c.FaultStep = rapid.IntRange(1, 10).Draw(rt, "fault_step")
	}
	c.Pump = rapid.SliceOfN(rapid.IntRange(0, 3999), 0, 60).Draw(rt, "pump")
	c.TailChunk = rapid.SampledFrom([]int{0, 0, 1, 5, 37, 300}).Draw(rt, "tail_chunk")
	c.TailDepth = rapid.Bool().Draw(rt, "tail_depth_first")
	return c
}

func vf23HasGroup(l []CurveID, g CurveID) bool {
	for _, x := range l {
		if x == g {
			return true
		}
	}
	return false
}
func vf23HasStr(l []string, g string) bool {
	for _, x := range l {
		if x == g {
			return true
		}
	}
	return false
}
func vf23Mutual(pref, other []CurveID) []CurveID {
	var out []CurveID
	for _, g := range pref {
		if vf23HasGroup(other, g) {
			out = append(out, g)
		}
	}
	return out
}
func vf23MutualS(pref, other []string) []string {
	var out []string
	for _, g := range pref {
		if vf23HasStr(other, g) {
			out = append(out, g)
		}
	}
	return out
}

// ---------------------------------------------------------------------------------------------------------------
// reference model of the expected outcome

type vf23Expect struct {
	Outcome string // "complete", "server-fails", "client-fails", "unbuildable", "interrupted"
	HRR     bool
	ALPN    string
}

func vf23Model(c *vf23Case) vf23Expect {
	e := vf23Expect{}
	srvCurves := c.SrvCurves
	if srvCurves == nil {
		srvCurves = []CurveID{X25519MLKEM768, X25519, CurveP256, CurveP384, CurveP521}
	}
	mutual := vf23Mutual(srvCurves, c.Groups)
	any := false
	for _, g := range mutual {
		if vf23HasGroup(c.Shares, g) {
			any = true
		}
	}
	e.HRR = len(mutual) > 0 && !any
	if m := vf23MutualS(c.SrvProtos, c.ALPN); len(m) > 0 {
		e.ALPN = m[0]
	}
	switch c.Fault {
	case "unbuildable":
		e.Outcome = "unbuildable"
	case "srv-no-group":
		e.Outcome = "server-fails"
	case "alpn-mismatch":
		if c.FaultSub == "client-only" {
			e.Outcome = "client-fails"
		} else {
			e.Outcome = "server-fails"
		}
	case "untrusted":
		e.Outcome = "client-fails"
	case "cancel", "close", "srv-close", "wrong-level":
		e.Outcome = "interrupted" // may or may not complete, depending on the step
	default:
		e.Outcome = "complete"
	}
	if len(mutual) == 0 {
		e.HRR = false
	}
	return e
}

// ---------------------------------------------------------------------------------------------------------------
// building the client

func vf23RefTPBytes(tps []vf23TP) []byte {
	var b []byte
	vi := func(x uint64) []byte { return vfRefVarintEncode(x, vfRefVarintLen(x)) }
	for _, p := range tps {
		var val []byte
		switch p.Kind {
		case "num":
			val = vi(p.Num)
		case "scid", "fake":
			val = p.Raw
		case "flag":
		}
		b = append(b, vi(p.ID)...)
		b = append(b, vi(uint64(len(val)))...)
		b = append(b, val...)
	}
	return b
}

func vf23MakeTPs(tps []vf23TP) TransportParameters {
	var out TransportParameters
	for _, p := range tps {
		switch p.Kind {
		case "num":
			switch p.ID {
			case 0x1:
				out = append(out, MaxIdleTimeout(p.Num))
			case 0x3:
				out = append(out, MaxUDPPayloadSize(p.Num))
			case 0x4:
				out = append(out, InitialMaxData(p.Num))
			case 0x5:
				out = append(out, InitialMaxStreamDataBidiLocal(p.Num))
			case 0x6:
				out = append(out, InitialMaxStreamDataBidiRemote(p.Num))
			case 0x7:
				out = append(out, InitialMaxStreamDataUni(p.Num))
			case 0x8:
				out = append(out, InitialMaxStreamsBidi(p.Num))
			case 0x9:
				out = append(out, InitialMaxStreamsUni(p.Num))
			case 0xb:
				out = append(out, MaxAckDelay(p.Num))
			case 0xe:
				out = append(out, ActiveConnectionIDLimit(p.Num))
			case 0x20:
				out = append(out, MaxDatagramFrameSize(p.Num))
			}
		case "scid":
			out = append(out, InitialSourceConnectionID(p.Raw))
		case "fake":
			out = append(out, &FakeQUICTransportParameter{Id: p.ID, Val: p.Raw})
		case "flag":
			if p.ID == 0xc {
				out = append(out, &DisableActiveMigration{})
			} else {
				out = append(out, &GREASEQUICBit{})
			}
		}
	}
	return out
}

func vf23MakeSpec(c *vf23Case) *ClientHelloSpec {
	spec := &ClientHelloSpec{CompressionMethods: []uint8{0}}
	if c.SpecVers {
		spec.TLSVersMin, spec.TLSVersMax = VersionTLS13, VersionTLS13
	}
	if c.GreaseSuite {
		spec.CipherSuites = append(spec.CipherSuites, GREASE_PLACEHOLDER)
	}
	spec.CipherSuites = append(spec.CipherSuites, c.Suites...)
	var curves []CurveID
	if c.GreaseGroup {
		curves = append(curves, GREASE_PLACEHOLDER)
	}
	curves = append(curves, c.Groups...)
	var shares []KeyShare
	if c.GreaseShare {
		shares = append(shares, KeyShare{Group: GREASE_PLACEHOLDER, Data: []byte{0}})
	}
	for _, g := range c.Shares {
		shares = append(shares, KeyShare{Group: g})
	}
	vers := []uint16{VersionTLS13}
	if c.GreaseGroup {
		vers = []uint16{GREASE_PLACEHOLDER, VersionTLS13}
	}
	exts := []TLSExtension{
		&SNIExtension{},
		&SupportedCurvesExtension{Curves: curves},
		&KeyShareExtension{KeyShares: shares},
		&SignatureAlgorithmsExtension{SupportedSignatureAlgorithms: []SignatureScheme{ECDSAWithP256AndSHA256, PSSWithSHA256, Ed25519, PKCS1WithSHA256, ECDSAWithP384AndSHA384, PSSWithSHA384, PSSWithSHA512, PKCS1WithSHA384}},
		&SupportedVersionsExtension{Versions: vers},
		&QUICTransportParametersExtension{TransportParameters: vf23MakeTPs(c.TPs)},
	}
	if len(c.ALPN) > 0 {
		exts = append(exts, &ALPNExtension{AlpnProtocols: append([]string(nil), c.ALPN...)})
	}
	for _, k := range c.Extras {
		switch k {
		case "status":
			exts = append(exts, &StatusRequestExtension{})
		case "sct":
			exts = append(exts, &SCTExtension{})
		case "grease1", "grease2":
			exts = append(exts, &UtlsGREASEExtension{})
		case "padding":
			exts = append(exts, &UtlsPaddingExtension{GetPaddingLen: BoringPaddingStyle})
		case "compresscert":
			exts = append(exts, &UtlsCompressCertExtension{Algorithms: []CertCompressionAlgo{CertCompressionBrotli}})
		case "alps":
			exts = append(exts, &ApplicationSettingsExtension{SupportedProtocols: []string{"h3"}})
		case "pskmodes":
			exts = append(exts, &PSKKeyExchangeModesExtension{Modes: []uint8{PskModeDHE}})
		case "ecpoints":
			exts = append(exts, &SupportedPointsExtension{SupportedPoints: []byte{0}})
		case "renego":
			exts = append(exts, &RenegotiationInfoExtension{Renegotiation: RenegotiateOnceAsClient})
		case "rsl":
			exts = append(exts, &FakeRecordSizeLimitExtension{Limit: 0x4001})
		}
	}
	if c.Fault == "unbuildable" && c.FaultSub == "two-paddings-custom" {
		exts = append(exts, &UtlsPaddingExtension{GetPaddingLen: BoringPaddingStyle}, &UtlsPaddingExtension{GetPaddingLen: BoringPaddingStyle})
	}
	// drawn order (stable sort by drawn keys)
	idx := make([]int, len(exts))
	for i := range idx {
		idx[i] = i
	}
	sort.SliceStable(idx, func(a, b int) bool {
		return c.OrderKeys[idx[a]%len(c.OrderKeys)] < c.OrderKeys[idx[b]%len(c.OrderKeys)]
	})
	for _, i := range idx {
		spec.Extensions = append(spec.Extensions, exts[i])
	}
	return spec
}

func vf23ClientConfig(c *vf23Case) *Config {
	cfg := &Config{ServerName: c.Name, RootCAs: vfGetCA("main").Pool, Time: vfNow, Rand: vfNewDetRand(c.RandSeed, "c23-client")}
	if c.CfgMinVer {
		cfg.MinVersion = VersionTLS13
	}
	if c.ClientCache {
		cfg.ClientSessionCache = NewLRUClientSessionCache(4)
	}
	if c.Fault == "untrusted" {
		cfg.RootCAs = vfGetCA("other").Pool
	}
	if c.Fault == "unbuildable" {
		cfg.MinVersion = VersionTLS13 // Start refuses a lower minimum before it ever builds the hello
		switch c.FaultSub {
		case "noname-parrot", "noname-golang", "noname-custom":
			cfg.ServerName = ""
		case "badprotos-parrot":
			cfg.NextProtos = []string{"h3", ""}
		}
	}
	return cfg
}

// vf23NewClient returns the connection under test and the error of ApplyPreset (custom specs are applied by the
// caller before Start; predefined IDs are applied by Start itself).
func vf23NewClient(c *vf23Case) (*UQUICConn, error) {
	cfg := vf23ClientConfig(c)
	id := HelloCustom
	if c.Fault == "unbuildable" {
		switch c.FaultSub {
		case "noname-parrot", "badprotos-parrot":
			id = vfParrots[c.FaultStep].ID
		case "noname-golang":
			id = HelloGolang
		}
	}
	q := UQUICClient(&QUICConfig{TLSConfig: cfg}, id)
	if id != HelloCustom {
		return q, nil
	}
	return q, q.ApplyPreset(vf23MakeSpec(c))
}

func vf23ServerConfig(c *vf23Case) *Config {
	scfg := vfServerConfig(c.KeyType, c.Name)
	scfg.MinVersion = VersionTLS13
	scfg.CurvePreferences = c.SrvCurves
	scfg.NextProtos = c.SrvProtos
	return scfg
}

// ---------------------------------------------------------------------------------------------------------------
// execution

type vf23Ev struct {
	Kind  QUICEventKind
	Level QUICEncryptionLevel
	Suite uint16
	Data  []byte
}

type vf23Chunk struct {
	Level QUICEncryptionLevel
	Data  []byte
}

type vf23End struct {
	name    string
	log     []vf23Ev
	inbox   []vf23Chunk // data on its way to this endpoint
	err     error       // first error returned by an API call of this endpoint
	errCall string
	closed  bool
	started bool
}

type vf23Result struct {
	cli, srv     *vf23End
	presetErr    error
	twinBuildErr error
	hang         string // name of the call that did not return (stuck structurally), "" if none
	hangDump     string
	hangElapsed  time.Duration
	notParked    string // a call that neither returned nor was parked: environment problem
	closeAlso    string // what Close did after a hung Start
	steps        int
	interrupted  bool
	cliState     ConnectionState
	srvState     ConnectionState
	pumpTrace    []byte
	livelock     bool
}

func (e *vf23End) has(k QUICEventKind) int {
	n := 0
	for _, ev := range e.log {
		if ev.Kind == k {
			n++
		}
	}
	return n
}

func (e *vf23End) stream(level QUICEncryptionLevel) []byte {
	var b []byte
	for _, ev := range e.log {
		if ev.Kind == QUICWriteData && ev.Level == level {
			b = append(b, ev.Data...)
		}
	}
	return b
}

func vf23Run(c *vf23Case, fast bool) *vf23Result {
	res := &vf23Result{cli: &vf23End{name: "client"}, srv: &vf23End{name: "server"}}
	cq, perr := vf23NewClient(c)
	res.presetErr = perr
	sq := QUICServer(&QUICConfig{TLSConfig: vf23ServerConfig(c)})
	if !c.SrvTPLate {
		sq.SetTransportParameters(c.SrvTP)
	}
	ctx, cancel := context.WithCancel(context.Background())
	defer cancel()

	call := func(e *vf23End, label, frame string, f func() error) (ok bool) {
		r := vf23Call(vf23HangBound, fast, frame, f)
		if r.returned {
			if r.err != nil && e.err == nil {
				e.err, e.errCall = r.err, label
			}
			return true
		}
		if r.stuck {
			res.hang, res.hangDump, res.hangElapsed = e.name+"."+label, r.dump, r.elapsed
		} else {
			res.notParked = e.name + "." + label
			res.hangDump = r.dump
		}
		return false
	}
	closeBoth := func() bool {
		order := []*vf23End{res.cli, res.srv}
		if c.CloseSrv1 {
			order = []*vf23End{res.srv, res.cli}
		}
		for _, e := range order {
			var ok bool
			if e == res.cli {
				ok = call(e, "Close", "(*UQUICConn).Close", func() error { cq.Close(); return nil })
				if ok { // a second Close must return as well
					ok = call(e, "Close#2", "(*UQUICConn).Close", func() error { cq.Close(); return nil })
				}
			} else {
				ok = call(e, "Close", "(*QUICConn).Close", func() error { sq.Close(); return nil })
			}
			e.closed = true
			if !ok {
				return false
			}
		}
		return true
	}

	// --- faults that act before Start
	if c.Fault == "close" && c.FaultStep == 0 {
		// Close on a connection that was never started returns nil at once; nothing else is done with it
		if !call(res.cli, "Close-before-Start", "(*UQUICConn).Close", func() error { return cq.Close() }) {
			return res
		}
		res.interrupted = true
		sq.Close()
		return res
	}
	if c.Fault == "cancel" && c.FaultStep == 0 {
		cancel()
		res.interrupted = true
	}
	if c.Fault == "unbuildable" {
		// independent confirmation that the hello of this configuration cannot be built: BuildHandshakeState called
		// directly on a twin connection with the same ID/spec/config (never started)
		tw := *c
		twq, twerr := vf23NewClient(&tw)
		if twerr == nil {
			twerr = twq.conn.BuildHandshakeState()
		}
		res.twinBuildErr = twerr
	}

	// --- Start
	res.cli.started = true
	if !call(res.cli, "Start", "(*UQUICConn).Start", func() error { return cq.Start(ctx) }) {
		if res.hang != "" {
			// the same root cause makes Close wait for ever as well; record what it does, then unpark both
			r := vf23Call(vf23HangBound, true, "(*UQUICConn).Close", func() error { return cq.Close() })
			switch {
			case r.returned:
				res.closeAlso = fmt.Sprintf("Close returned %v", r.err)
			case r.stuck:
				res.closeAlso = "Close hangs too"
			default:
				res.closeAlso = "Close neither returned nor parked"
			}
			vf23Release(cq)
		}
		sq.Close()
		return res
	}
	if res.cli.err != nil {
		// Start reported an error: the connection is dead; a server flight that was already in transit may still be
		// handed to HandleData (and the transport may still set its parameters): both must return, as must Close
		if c.OrderKeys != nil && len(c.OrderKeys) > 0 && c.OrderKeys[0]%2 == 0 {
			if !call(res.cli, "SetTransportParameters-after-failed-Start", "(*UQUICConn).SetTransportParameters", func() error { cq.SetTransportParameters([]byte{1, 2}); return nil }) {
				return res
			}
		}
		if !call(res.cli, "HandleData-after-failed-Start", "(*UQUICConn).HandleData", func() error {
			cq.HandleData(QUICEncryptionLevelInitial, []byte{2, 0, 0, 4, 3, 3, 0, 0})
			return nil
		}) {
			return res
		}
		call(res.cli, "Close", "(*UQUICConn).Close", func() error { cq.Close(); return nil })
		sq.Close()
		return res
	}
	res.srv.started = true
	if !call(res.srv, "Start", "(*QUICConn).Start", func() error { return sq.Start(context.Background()) }) {
		return res
	}

	// --- pump
	drain := func(e *vf23End, n int) (got int) {
		for i := 0; i < n; i++ {
			var ev QUICEvent
			if e == res.cli {
				ev = cq.NextEvent()
			} else {
				ev = sq.NextEvent()
			}
			if ev.Kind == QUICNoEvent {
				return got
			}
			got++
			rec := vf23Ev{Kind: ev.Kind, Level: ev.Level, Suite: ev.Suite, Data: append([]byte(nil), ev.Data...)}
			e.log = append(e.log, rec)
			switch ev.Kind {
			case QUICWriteData:
				peer := res.srv
				if e == res.srv {
					peer = res.cli
				}
				peer.inbox = append(peer.inbox, vf23Chunk{ev.Level, rec.Data})
			case QUICTransportParametersRequired:
				if e == res.srv {
					if !call(e, "SetTransportParameters", "(*QUICConn).SetTransportParameters", func() error { sq.SetTransportParameters(c.SrvTP); return nil }) {
						return got
					}
				}
			case QUICHandshakeDone:
				if e == res.srv && c.SendTicket {
					if err := sq.SendSessionTicket(QUICSessionTicketOptions{}); err != nil && e.err == nil {
						e.err, e.errCall = err, "SendSessionTicket"
					}
				}
			}
		}
		return got
	}
	deliver := func(e *vf23End, mode, cut int) bool {
		if len(e.inbox) == 0 || e.err != nil {
			return true
		}
		head := e.inbox[0]
		var data []byte
		switch {
		case mode == 0 && len(head.Data) > 1: // split
			k := 1 + cut%(len(head.Data)-1)
			data = head.Data[:k]
			e.inbox[0].Data = head.Data[k:]
		case mode == 1: // empty CRYPTO frame
			data = []byte{}
		case mode == 9 && c.TailChunk > 0 && len(head.Data) > c.TailChunk: // fixed-size pieces
			data = head.Data[:c.TailChunk]
			e.inbox[0].Data = head.Data[c.TailChunk:]
		default:
			data = head.Data
			e.inbox = e.inbox[1:]
		}
		// the transport owns its receive buffer: it is handed to HandleData and re-used for the next datagram as soon as
		// the call has returned (modelled by overwriting it), so nothing the connection keeps may alias it
		data = append([]byte(nil), data...)
		scribble := func() {
			for i := range data {
				data[i] = 0xa5
			}
		}
		if e == res.cli {
			return call(e, "HandleData", "(*UQUICConn).HandleData", func() error { err := cq.HandleData(head.Level, data); scribble(); return err })
		}
		return call(e, "HandleData", "(*QUICConn).HandleData", func() error { err := sq.HandleData(head.Level, data); scribble(); return err })
	}
	stopped := func() bool { return res.hang != "" || res.notParked != "" }
	faultAt := func(step int) bool { // returns true when the run is over
		if step != c.FaultStep {
			return false
		}
		switch c.Fault {
		case "cancel":
			if step > 0 {
				cancel()
				res.interrupted = true
			}
		case "close":
			res.interrupted = true
			closeBoth()
			return true
		case "wrong-level":
			lv := map[string]QUICEncryptionLevel{"application": QUICEncryptionLevelApplication, "handshake": QUICEncryptionLevelHandshake,
				"early": QUICEncryptionLevelEarly, "initial": QUICEncryptionLevelInitial}[c.FaultSub]
			if cq.conn.in.level == lv {
				lv = QUICEncryptionLevelApplication
				if cq.conn.in.level == lv {
					lv = QUICEncryptionLevelInitial
				}
			}
			res.interrupted = true
			call(res.cli, "HandleData-at-wrong-level", "(*UQUICConn).HandleData", func() error {
				cq.HandleData(lv, []byte{2, 0, 0, 4, 3, 3, 0, 0})
				return nil
			})
			if stopped() {
				return true
			}
			closeBoth()
			return true
		case "srv-close":
			res.interrupted = true
			call(res.srv, "Close", "(*QUICConn).Close", func() error { sq.Close(); return nil })
			res.srv.closed = true
			call(res.cli, "Close", "(*UQUICConn).Close", func() error { cq.Close(); return nil })
			res.cli.closed = true
			return true
		}
		return false
	}
	step := 0
	over := false
	for _, a := range c.Pump {
		step++
		if faultAt(step) {
			over = true
			break
		}
		kind, n, cut := a/1000, 1+(a/250)%4, a%250
		res.pumpTrace = append(res.pumpTrace, "csCS"[kind])
		switch kind {
		case 0:
			drain(res.cli, n)
		case 1:
			drain(res.srv, n)
		case 2:
			deliver(res.cli, cut%5, cut)
		case 3:
			deliver(res.srv, cut%5, cut)
		}
		if stopped() {
			return res
		}
		if res.cli.err != nil || res.srv.err != nil {
			break
		}
	}
	// deterministic tail: run to quiescence
	for round := 0; !over && res.cli.err == nil && res.srv.err == nil; round++ {
		step++
		if faultAt(step) {
			over = true
			break
		}
		if round > 4000 {
			res.livelock = true
			break
		}
		progress := 0
		if c.TailDepth {
			// depth-first transport: each event is acted on before the next one is asked for, so the event queue is
			// not read to QUICNoEvent between a QUICWriteData event and the peer's answer
			for _, e := range []*vf23End{res.cli, res.srv} {
				progress += drain(e, 1)
				if stopped() {
					return res
				}
				for _, p := range []*vf23End{res.srv, res.cli} {
					for len(p.inbox) > 0 && p.err == nil {
						progress++
						if !deliver(p, 9, 0) {
							return res
						}
					}
				}
			}
			if progress == 0 {
				break
			}
			continue
		}
		progress = drain(res.cli, 64) + drain(res.srv, 64)
		if stopped() {
			return res
		}
		for _, e := range []*vf23End{res.srv, res.cli} {
			for len(e.inbox) > 0 && e.err == nil {
				progress++
				if !deliver(e, 9, 0) {
					return res
				}
			}
		}
		if progress == 0 {
			break
		}
	}
	res.steps = step
	if !over {
		// events queued by the failing call are still readable
		drain(res.cli, 64)
		drain(res.srv, 64)
		if stopped() {
			return res
		}
		if res.cli.err == nil && res.srv.err == nil {
			res.cliState = cq.ConnectionState()
			res.srvState = sq.ConnectionState()
		}
		closeBoth()
	}
	return res
}

// ---------------------------------------------------------------------------------------------------------------
// oracles

type vf23Msg struct {
	Type byte
	Raw  []byte
}

func vf23SplitHS(stream []byte) ([]vf23Msg, bool) {
	var out []vf23Msg
	for len(stream) > 0 {
		if len(stream) < 4 {
			return out, false
		}
		n := int(stream[1])<<16 | int(stream[2])<<8 | int(stream[3])
		if len(stream) < 4+n {
			return out, false
		}
		out = append(out, vf23Msg{stream[0], stream[:4+n]})
		stream = stream[4+n:]
	}
	return out, true
}

// vf23CheckEvents: per-endpoint invariants of the event log (complete=true adds the "exactly once" parts).
func vf23CheckEvents(e *vf23End, complete bool) string {
	type lk struct {
		k QUICEventKind
		l QUICEncryptionLevel
	}
	seen := map[lk]int{}
	done := false
	for i, ev := range e.log {
		switch ev.Kind {
		case QUICSetWriteSecret, QUICSetReadSecret:
			if ev.Level != QUICEncryptionLevelHandshake && ev.Level != QUICEncryptionLevelApplication {
				return fmt.Sprintf("%s event %d: secret for unexpected level %v", e.name, i, ev.Level)
			}
			if seen[lk{ev.Kind, ev.Level}] > 0 {
				return fmt.Sprintf("%s event %d: secret kind %d for level %v installed twice", e.name, i, ev.Kind, ev.Level)
			}
			if ev.Kind == QUICSetReadSecret && seen[lk{QUICSetWriteSecret, ev.Level}] == 0 {
				return fmt.Sprintf("%s event %d: read secret for level %v before the write secret", e.name, i, ev.Level)
			}
			if ev.Kind == QUICSetReadSecret && ev.Level == QUICEncryptionLevelApplication && !done {
				return fmt.Sprintf("%s event %d: 1-RTT read secret before QUICHandshakeDone", e.name, i)
			}
			if len(ev.Data) == 0 || ev.Suite == 0 {
				return fmt.Sprintf("%s event %d: empty secret or suite", e.name, i)
			}
			if ev.Level == QUICEncryptionLevelApplication && seen[lk{QUICSetWriteSecret, QUICEncryptionLevelHandshake}] == 0 {
				return fmt.Sprintf("%s event %d: application secret before any handshake secret", e.name, i)
			}
		case QUICHandshakeDone:
			if done {
				return fmt.Sprintf("%s event %d: QUICHandshakeDone twice", e.name, i)
			}
			done = true
		case QUICTransportParameters:
			if seen[lk{ev.Kind, 0}] > 0 {
				return fmt.Sprintf("%s event %d: peer transport parameters delivered twice", e.name, i)
			}
			ev.Level = 0
		case QUICWriteData:
			if len(ev.Data) == 0 {
				return fmt.Sprintf("%s event %d: empty QUICWriteData", e.name, i)
			}
			if ev.Level != QUICEncryptionLevelInitial && seen[lk{QUICSetWriteSecret, ev.Level}] == 0 {
				return fmt.Sprintf("%s event %d: data at level %v before its write secret", e.name, i, ev.Level)
			}
			continue
		case QUICTransportParametersRequired:
			continue
		default:
			return fmt.Sprintf("%s event %d: unexpected kind %d", e.name, i, ev.Kind)
		}
		seen[lk{ev.Kind, ev.Level}]++
	}
	if complete {
		if !done {
			return e.name + ": no QUICHandshakeDone"
		}
		if seen[lk{QUICTransportParameters, 0}] != 1 {
			return fmt.Sprintf("%s: peer transport parameters delivered %d times", e.name, seen[lk{QUICTransportParameters, 0}])
		}
		for _, l := range []QUICEncryptionLevel{QUICEncryptionLevelHandshake, QUICEncryptionLevelApplication} {
			if seen[lk{QUICSetWriteSecret, l}] != 1 || seen[lk{QUICSetReadSecret, l}] != 1 {
				return fmt.Sprintf("%s: level %v secrets: %d write, %d read", e.name, l, seen[lk{QUICSetWriteSecret, l}], seen[lk{QUICSetReadSecret, l}])
			}
		}
	}
	return ""
}

func (e *vf23End) secret(k QUICEventKind, l QUICEncryptionLevel) (uint16, []byte) {
	for _, ev := range e.log {
		if ev.Kind == k && ev.Level == l {
			return ev.Suite, ev.Data
		}
	}
	return 0, nil
}

// vf23CheckClientWire: what the client put on the wire. Returns (problem, number of ClientHellos).
func vf23CheckClientWire(c *vf23Case, res *vf23Result, complete bool) (string, int) {
	init, ok := vf23SplitHS(res.cli.stream(QUICEncryptionLevelInitial))
	if !ok {
		return "client Initial CRYPTO stream is not a sequence of whole handshake messages", 0
	}
	wantTP := vf23RefTPBytes(c.TPs)
	for i, m := range init {
		if m.Type != 1 {
			return fmt.Sprintf("client Initial message %d has type %d (only client_hello is legal; a CCS or alert must never appear)", i, m.Type), len(init)
		}
		h := vfParseClientHello(m.Raw)
		if len(h.Violations) > 0 {
			return fmt.Sprintf("ClientHello %d malformed: %v", i, h.Violations), len(init)
		}
		if len(h.SessionID) != 0 {
			return fmt.Sprintf("ClientHello %d has a %d-byte legacy_session_id (RFC 9001 8.4: must be empty)", i, len(h.SessionID)), len(init)
		}
		tp := h.Ext(57)
		if tp == nil {
			return fmt.Sprintf("ClientHello %d lacks quic_transport_parameters", i), len(init)
		}
		if !bytes.Equal(tp.Body, wantTP) {
			return fmt.Sprintf("ClientHello %d transport parameters %x, spec says %x", i, tp.Body, wantTP), len(init)
		}
		vers, _ := h.SupportedVersions()
		for _, v := range vers {
			if !vfIsGREASE(v) && v != VersionTLS13 {
				return fmt.Sprintf("ClientHello %d offers version %#x", i, v), len(init)
			}
		}
		if sni, ok := h.SNI(); !ok || sni != c.Name {
			return fmt.Sprintf("ClientHello %d SNI %q want %q", i, sni, c.Name), len(init)
		}
	}
	if len(init) > 2 {
		return fmt.Sprintf("%d ClientHellos", len(init)), len(init)
	}
	hs, ok := vf23SplitHS(res.cli.stream(QUICEncryptionLevelHandshake))
	if !ok {
		return "client Handshake CRYPTO stream is not a sequence of whole handshake messages", len(init)
	}
	for i, m := range hs {
		if m.Type != 20 {
			return fmt.Sprintf("client Handshake-level message %d has type %d, expected only finished", i, m.Type), len(init)
		}
	}
	if complete && len(hs) != 1 {
		return fmt.Sprintf("client sent %d Finished messages", len(hs)), len(init)
	}
	if app := res.cli.stream(QUICEncryptionLevelApplication); len(app) != 0 {
		return fmt.Sprintf("client wrote %d bytes at the Application level", len(app)), len(init)
	}
	return "", len(init)
}

func vf23Describe(c *vf23Case) map[string]any {
	return map[string]any{"fault": c.Fault, "sub": c.FaultSub, "step": c.FaultStep, "groups": fmt.Sprint(c.Groups), "shares": fmt.Sprint(c.Shares),
		"srv_curves": fmt.Sprint(c.SrvCurves), "alpn": c.ALPN, "srv_protos": c.SrvProtos, "tps": len(c.TPs), "extras": c.Extras, "pump_len": len(c.Pump), "tail_chunk": c.TailChunk, "tail_depth_first": c.TailDepth, "key": c.KeyType}
}

// vf23Judge evaluates one executed case. rerun re-executes the case (for the hang oracle).
func vf23Judge(t vfFataler, st *vfStats, c *vf23Case, res *vf23Result, rerun func() *vf23Result) {
	exp := vf23Model(c)
	if res.notParked != "" {
		vf23Inconclusive(fmt.Sprintf("%s neither returned within %v nor is its goroutine parked:\n%s", res.notParked, vf23HangBound, res.hangDump))
	}
	if res.hang != "" {
		// hang oracle: re-execute once, it must hang again in the same call
		again := rerun()
		if again.notParked != "" || again.hang != res.hang {
			vf23Inconclusive(fmt.Sprintf("%s hung once (%v) but the re-execution gave hang=%q notParked=%q", res.hang, res.hangElapsed, again.hang, again.notParked))
		}
		detail := fmt.Sprintf("%s did not return (parked for %v and %v in two executions; no handshake goroutine left to wake it; %s); fault=%s/%s; BuildHandshakeState on a twin connection: %v; preset error: %v\n%s",
			res.hang, res.hangElapsed.Round(time.Millisecond), again.hangElapsed.Round(time.Millisecond), res.closeAlso, c.Fault, c.FaultSub, res.twinBuildErr, res.presetErr, res.hangDump)
		if res.hang == "client.Start" && c.Fault == "unbuildable" && (res.twinBuildErr != nil || res.presetErr != nil) {
			st.Class("hang:start-build-fails")
			st.KnownOrViolation(t, vf23KnownStartHang, "%s", detail)
			return
		}
		st.Violation(t, "%s", detail)
		return
	}
	if res.livelock {
		st.Violation(t, "event pump did not reach quiescence in 4000 rounds")
	}
	cliDone := res.cli.has(QUICHandshakeDone) > 0
	srvDone := res.srv.has(QUICHandshakeDone) > 0
	complete := cliDone && srvDone && res.cli.err == nil && res.srv.err == nil

	// invariants that hold for every run, complete or not
	if msg := vf23CheckEvents(res.cli, false); msg != "" {
		st.Violation(t, "%s", msg)
	}
	if msg := vf23CheckEvents(res.srv, false); msg != "" {
		st.Violation(t, "(upstream server) %s", msg)
	}
	wireMsg, nCH := "", 0
	if c.Fault != "unbuildable" {
		wireMsg, nCH = vf23CheckClientWire(c, res, complete && !res.interrupted)
		if wireMsg != "" {
			st.Violation(t, "%s", wireMsg)
		}
	}

	switch exp.Outcome {
	case "unbuildable":
		st.Class("outcome:unbuildable-start-returned")
		if res.twinBuildErr == nil && res.presetErr == nil {
			st.Violation(t, "harness: configuration %s was meant to be unbuildable but builds", c.FaultSub)
		}
		if res.cli.err == nil && res.presetErr == nil {
			st.Violation(t, "Start returned nil although the ClientHello cannot be built (%v)", res.twinBuildErr)
		}
		if cliDone {
			st.Violation(t, "handshake completed with an unbuildable configuration")
		}
		return
	case "complete":
		if !complete {
			st.Violation(t, "handshake did not complete: client done=%v err=%v (%s); server done=%v err=%v (%s); hellos=%d; expected HRR=%v",
				cliDone, res.cli.err, res.cli.errCall, srvDone, res.srv.err, res.srv.errCall, nCH, exp.HRR)
		}
	case "server-fails":
		if res.srv.err == nil {
			st.Class("model-mismatch:server-did-not-fail")
		} else {
			st.Class("outcome:server-alert")
		}
	case "client-fails":
		if res.cli.err == nil {
			st.Class("model-mismatch:client-did-not-fail")
		} else {
			st.Class("outcome:client-error")
		}
	case "interrupted":
		if complete {
			st.Class("outcome:interrupted-after-completion")
		} else {
			st.Class("outcome:interrupted-before-completion")
		}
	}
	if !complete {
		return
	}
	st.Class("outcome:complete")
	// a Close injected by the schedule ends the run without reading the events still queued: with the depth-first pump
	// (one event per step) that can fall between QUICHandshakeDone and the 1-RTT read secret, so the "exactly once"
	// part is only demanded of runs whose queue was read to the end
	closedEarly := res.interrupted && (c.Fault == "close" || c.Fault == "srv-close" || c.Fault == "wrong-level")
	if closedEarly {
		st.Class("outcome:closed-by-schedule-after-completion")
	}
	for _, e := range []*vf23End{res.cli, res.srv} {
		if msg := vf23CheckEvents(e, !closedEarly); msg != "" {
			st.Violation(t, "%s", msg)
		}
	}
	// HRR exactly when the model says so, visible as two ClientHellos and a HelloRetryRequest from the server
	sinit, _ := vf23SplitHS(res.srv.stream(QUICEncryptionLevelInitial))
	gotHRR := false
	for _, m := range sinit {
		if m.Type != 2 {
			st.Violation(t, "server Initial message of type %d", m.Type)
		}
		if sh := vfParseServerHello(m.Raw); sh.IsHRR {
			gotHRR = true
		}
	}
	if gotHRR != exp.HRR || (nCH == 2) != exp.HRR {
		st.Violation(t, "HRR: model %v, server sent HRR %v, client sent %d hellos", exp.HRR, gotHRR, nCH)
	}
	if exp.HRR {
		st.Class("hrr")
	}
	// transport parameters: delivered bytes are the peer's
	for _, ev := range res.cli.log {
		if ev.Kind == QUICTransportParameters && !bytes.Equal(ev.Data, c.SrvTP) {
			st.Violation(t, "client got transport parameters %x, server set %x", ev.Data, c.SrvTP)
		}
	}
	for _, ev := range res.srv.log {
		if ev.Kind == QUICTransportParameters && !bytes.Equal(ev.Data, vf23RefTPBytes(c.TPs)) {
			st.Violation(t, "server got transport parameters %x, client spec says %x", ev.Data, vf23RefTPBytes(c.TPs))
		}
	}
	if closedEarly {
		return // the event logs are prefixes: nothing more to compare
	}
	// secrets agree across the two peers
	for _, l := range []QUICEncryptionLevel{QUICEncryptionLevelHandshake, QUICEncryptionLevelApplication} {
		cws, cw := res.cli.secret(QUICSetWriteSecret, l)
		crs, cr := res.cli.secret(QUICSetReadSecret, l)
		sws, sw := res.srv.secret(QUICSetWriteSecret, l)
		srs, sr := res.srv.secret(QUICSetReadSecret, l)
		if !bytes.Equal(cw, sr) || !bytes.Equal(cr, sw) || cws != srs || crs != sws || cws != crs {
			st.Violation(t, "level %v: secrets/suites of the two peers do not match", l)
		}
		found := false
		for _, s := range c.Suites {
			if s == cws {
				found = true
			}
		}
		if !found {
			st.Violation(t, "negotiated suite %#x was not offered (%v)", cws, c.Suites)
		}
	}
	if !res.interrupted {
		cs, ss := res.cliState, res.srvState
		if !cs.HandshakeComplete || !ss.HandshakeComplete || cs.Version != VersionTLS13 || ss.Version != VersionTLS13 {
			st.Violation(t, "connection states: client complete=%v vers=%#x, server complete=%v vers=%#x", cs.HandshakeComplete, cs.Version, ss.HandshakeComplete, ss.Version)
		}
		if cs.NegotiatedProtocol != exp.ALPN || ss.NegotiatedProtocol != exp.ALPN {
			st.Violation(t, "ALPN: client %q server %q model %q", cs.NegotiatedProtocol, ss.NegotiatedProtocol, exp.ALPN)
		}
		if ss.ServerName != c.Name {
			st.Violation(t, "server saw SNI %q want %q", ss.ServerName, c.Name)
		}
	}
}

func vf23PumpShape(res *vf23Result) string {
	s := string(res.pumpTrace)
	if len(s) > 40 {
		s = s[:40]
	}
	return s
}

// ---------------------------------------------------------------------------------------------------------------
// tests

// Directed cases: one per fault class, including the configuration of the known finding.
func TestVerifC23Directed(t *testing.T) {
	st := vfNewStats(t, "C23")
	base := func() *vf23Case {
		return &vf23Case{Name: "quic.example.test", Suites: []uint16{TLS_AES_128_GCM_SHA256, TLS_CHACHA20_POLY1305_SHA256}, Groups: []CurveID{X25519, CurveP256},
			Shares: []CurveID{X25519}, ALPN: []string{"h3"}, SrvProtos: []string{"h3"}, TPs: []vf23TP{{Kind: "num", ID: 4, Num: 1 << 20}, {Kind: "flag", ID: 0xc}},
			OrderKeys: make([]int, 24), SpecVers: true, KeyType: "ecdsa", SrvTP: []byte{1, 2, 3}, Fault: "none", Extras: []string{"pskmodes", "grease1"}}
	}
	type dc struct {
		name string
		mod  func(c *vf23Case)
	}
	cases := []dc{
		{"plain", func(c *vf23Case) {}},
		{"hrr-p256", func(c *vf23Case) { c.SrvCurves = []CurveID{CurveP256} }},
		{"hybrid", func(c *vf23Case) {
			c.Groups = []CurveID{X25519MLKEM768, X25519}
			c.Shares = []CurveID{X25519MLKEM768, X25519}
		}},
		{"hrr-from-hybrid", func(c *vf23Case) {
			c.Groups = []CurveID{X25519MLKEM768, X25519, CurveP384}
			c.Shares = []CurveID{X25519MLKEM768, X25519}
			c.SrvCurves = []CurveID{CurveP384}
		}},
		{"chunked", func(c *vf23Case) {
			c.Pump = []int{0, 3005, 3007, 3005, 1000, 2005, 2011, 2005, 2013, 1000, 2005, 2005, 2005, 2005, 0, 3005, 3005}
		}},
		{"depth-first", func(c *vf23Case) { c.TailDepth = true }},
		{"depth-first-hrr", func(c *vf23Case) { c.TailDepth = true; c.SrvCurves = []CurveID{CurveP256} }},
		{"depth-first-hrr-ticket-chunked", func(c *vf23Case) {
			c.TailDepth = true
			c.SrvCurves = []CurveID{CurveP256}
			c.SendTicket = true
			c.TailChunk = 37
		}},
		{"ticket", func(c *vf23Case) { c.SendTicket = true; c.ClientCache = true }},
		{"ticket-chunked", func(c *vf23Case) { c.SendTicket = true; c.TailChunk = 7 }},
		{"bytewise", func(c *vf23Case) { c.TailChunk = 1; c.SrvCurves = []CurveID{CurveP256} }},
		{"untrusted", func(c *vf23Case) { c.Fault = "untrusted" }},
		{"alpn-client-only", func(c *vf23Case) { c.Fault = "alpn-mismatch"; c.FaultSub = "client-only"; c.SrvProtos = nil }},
		{"alpn-disjoint", func(c *vf23Case) { c.Fault = "alpn-mismatch"; c.FaultSub = "disjoint"; c.SrvProtos = []string{"vf-a"} }},
		{"no-group", func(c *vf23Case) { c.Fault = "srv-no-group"; c.SrvCurves = []CurveID{CurveP384} }},
		{"cancel-before-start", func(c *vf23Case) { c.Fault = "cancel"; c.FaultStep = 0 }},
		{"cancel-mid", func(c *vf23Case) { c.Fault = "cancel"; c.FaultStep = 2 }},
		{"close-mid", func(c *vf23Case) { c.Fault = "close"; c.FaultStep = 2 }},
		{"close-before-start", func(c *vf23Case) { c.Fault = "close"; c.FaultStep = 0 }},
		{"srv-close", func(c *vf23Case) { c.Fault = "srv-close"; c.FaultStep = 2 }},
		// the known finding: Config without ServerName and without InsecureSkipVerify, predefined ID (applied by Start)
		{"unbuildable-noname-parrot", func(c *vf23Case) { c.Fault = "unbuildable"; c.FaultSub = "noname-parrot"; c.FaultStep = 23 }},
	}
	for _, d := range cases {
		c := base()
		d.mod(c)
		st.Eval()
		st.Class("directed:" + d.name)
		st.NonTrivial("directed:" + d.name)
		// the directed known-finding case always uses the full oracle (>= 10 s, twice)
		res := vf23Run(c, false)
		vf23Judge(t, st, c, res, func() *vf23Result { return vf23Run(c, false) })
		if c.Fault == "none" && !(res.cli.has(QUICHandshakeDone) == 1) {
			st.Violation(t, "directed case %s did not complete", d.name)
		}
	}
}

func TestVerifC23Pump(t *testing.T) {
	st := vfNewStats(t, "C23")
	// With the start-hang listed as an open finding the random search recognises it structurally (fast) instead of
	// waiting 2 x 10 s per case; TestVerifC23Directed applies the full oracle to it.
	fastKnown := st.openKnown[vf23KnownStartHang]
	rapid.Check(t, func(rt *rapid.T) {
		c := vf23GenCase(rt)
		st.Eval()
		fast := fastKnown && c.Fault == "unbuildable"
		res := vf23Run(c, fast)
		exp := vf23Model(c)
		st.Class("fault:" + c.Fault)
		st.Class(fmt.Sprintf("tail-chunk:%d", c.TailChunk))
		st.Class(fmt.Sprintf("tail-depth-first:%v", c.TailDepth))
		if c.SendTicket {
			st.Class("server-sends-ticket")
		}
		if len(c.Pump) >= 10 {
			st.Class("pump-schedule>=10")
		}
		if c.Fault == "unbuildable" {
			st.Class("unbuildable:" + c.FaultSub)
		}
		if c.Fault != "none" || exp.HRR {
			st.NonTrivial(fmt.Sprintf("%s/%s/%d/hrr=%v/%s", c.Fault, c.FaultSub, c.FaultStep, exp.HRR, vf23PumpShape(res)))
		}
		d := vf23Describe(c)
		d["client_err"] = fmt.Sprint(res.cli.err)
		d["server_err"] = fmt.Sprint(res.srv.err)
		d["pump"] = vf23PumpShape(res)
		d["hang"] = res.hang
		st.Sample(d)
		vf23Judge(rt, st, c, res, func() *vf23Result { return vf23Run(c, fast) })
	})
}
