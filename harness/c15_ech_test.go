//go:build verif

package tls

// C15 - ECH hides the real server name and is honoured end to end.
//
// Clients: every predefined parrot whose spec carries an ECH extension (the "ECH-capable" ones) and HelloGolang,
// all through UClient with Config.EncryptedClientHelloConfigList. Server: tls.Server with
// Config.EncryptedClientHelloKeys. Oracle (independent of ech.go):
//   - the ECHConfig / ECHConfigList / retry list are encoded by the harness from draft-ietf-tls-esni-18 s4;
//   - the bytes the client wrote are searched for the secret name; the outer ClientHello is decoded with the
//     reference parser: outer SNI == public name, outer ECH names the config (id, one of its suites, 32-byte enc);
//   - the harness opens the payload with the config's private key (internal/hpke primitives, own AAD
//     construction), decodes EncodedClientHelloInner with its own decoder, expands ech_outer_extensions against
//     the outer hello and re-parses the result: inner SNI == Config.ServerName, inner ECH marker, strict grammar;
//   - outcome: accept => both sides complete, ECHAccepted and ServerName on both sides, data flows;
//     accept after HRR likewise (second hello decrypted with the same HPKE context, no enc);
//     reject (server holds a newer key) => *ECHRejectionError whose RetryConfigList is the server's list.

import (
	"bytes"
	"crypto/ecdh"
	"crypto/x509"
	"encoding/binary"
	"errors"
	"fmt"
	"strings"
	"testing"

	"github.com/refraction-networking/utls/internal/hpke"
	"pgregory.net/rapid"
)

const (
	vf15KeyRejectedSecretName = "C14:ech-rejected-verified-against-secret-name"
	vf15KeyParrotHRR          = "C15:parrot-ech-hrr"
)

// ---- ECHConfig encoder (draft-ietf-tls-esni-18 section 4) ----

type vf15Suite struct{ KDF, AEAD uint16 }

type vf15ECHConfig struct {
	Version    uint16
	ID         uint8
	KEM        uint16
	Suites     []vf15Suite
	MaxNameLen uint8
	PublicName string
	Exts       []vfExt
	Priv       *ecdh.PrivateKey
	Raw        []byte
}

func vf15U16(b []byte, v int) []byte { return append(b, byte(v>>8), byte(v)) }

func vf15NewECHConfig(seed uint64, label string, id uint8, suites []vf15Suite, maxName uint8, publicName string) *vf15ECHConfig {
	kb := make([]byte, 32)
	vfNewDetRand(seed, "echkey|"+label).Read(kb)
	priv, err := ecdh.X25519().NewPrivateKey(kb)
	if err != nil {
		panic(err)
	}
	c := &vf15ECHConfig{Version: 0xfe0d, ID: id, KEM: 0x0020, Suites: suites, MaxNameLen: maxName, PublicName: publicName, Priv: priv}
	c.marshal()
	return c
}

func (c *vf15ECHConfig) marshal() {
	var body []byte
	body = append(body, c.ID)
	body = vf15U16(body, int(c.KEM))
	pub := c.Priv.PublicKey().Bytes()
	body = vf15U16(body, len(pub))
	body = append(body, pub...)
	body = vf15U16(body, 4*len(c.Suites))
	for _, s := range c.Suites {
		body = vf15U16(body, int(s.KDF))
		body = vf15U16(body, int(s.AEAD))
	}
	body = append(body, c.MaxNameLen)
	body = append(body, byte(len(c.PublicName)))
	body = append(body, c.PublicName...)
	var ext []byte
	for _, e := range c.Exts {
		ext = vf15U16(ext, int(e.Type))
		ext = vf15U16(ext, len(e.Body))
		ext = append(ext, e.Body...)
	}
	body = vf15U16(body, len(ext))
	body = append(body, ext...)
	raw := vf15U16(nil, int(c.Version))
	raw = vf15U16(raw, len(body))
	c.Raw = append(raw, body...)
}

func vf15ConfigList(raws ...[]byte) []byte {
	var all []byte
	for _, r := range raws {
		all = append(all, r...)
	}
	return append(vf15U16(nil, len(all)), all...)
}

// ---- EncodedClientHelloInner decoder (section 5.1) ----

type vf15Inner struct {
	Recon     []byte   // reconstructed ClientHelloInner, handshake header included
	OuterRefs []uint16 // types referenced through ech_outer_extensions, in order
	PadLen    int
	EncLen    int
}

// vf15DecodeInner rebuilds ClientHelloInner from EncodedClientHelloInner and the outer hello.
func vf15DecodeInner(encoded []byte, outer *vfHello) (*vf15Inner, error) {
	r := &vfRd{b: encoded}
	verRandom := r.take(34)
	sid := r.vec8()
	suites := r.vec16()
	comp := r.vec8()
	exts := r.vec16()
	if r.err {
		return nil, errors.New("EncodedClientHelloInner truncated")
	}
	if len(sid) != 0 {
		return nil, fmt.Errorf("EncodedClientHelloInner carries a %d-byte legacy_session_id, must be empty", len(sid))
	}
	for _, p := range r.b {
		if p != 0 {
			return nil, errors.New("EncodedClientHelloInner padding is not all zero")
		}
	}
	in := &vf15Inner{PadLen: len(r.b), EncLen: len(encoded)}
	var out []byte
	er := &vfRd{b: exts}
	next := 0 // position in outer.Exts from which the next reference is searched
	sawOuterExts := false
	for !er.empty() {
		t := er.u16()
		body := er.vec16()
		if er.err {
			return nil, errors.New("inner extensions truncated")
		}
		if t != 0xfd00 {
			out = vf15U16(out, int(t))
			out = vf15U16(out, len(body))
			out = append(out, body...)
			continue
		}
		if sawOuterExts {
			return nil, errors.New("two ech_outer_extensions extensions")
		}
		sawOuterExts = true
		br := &vfRd{b: body}
		lst := br.vec8()
		if br.err || !br.empty() || len(lst) < 2 || len(lst)%2 != 0 {
			return nil, errors.New("malformed ech_outer_extensions")
		}
		for i := 0; i < len(lst); i += 2 {
			ref := binary.BigEndian.Uint16(lst[i:])
			if ref == 0xfe0d {
				return nil, errors.New("ech_outer_extensions references encrypted_client_hello")
			}
			found := false
			for ; next < len(outer.Exts); next++ {
				if outer.Exts[next].Type == ref {
					found = true
					break
				}
			}
			if !found {
				return nil, fmt.Errorf("ech_outer_extensions references type %d which is absent from the outer hello (or out of order)", ref)
			}
			in.OuterRefs = append(in.OuterRefs, ref)
			out = vf15U16(out, int(ref))
			out = vf15U16(out, len(outer.Exts[next].Body))
			out = append(out, outer.Exts[next].Body...)
			next++
		}
	}
	var body []byte
	body = append(body, verRandom...)
	body = append(body, byte(len(outer.SessionID)))
	body = append(body, outer.SessionID...)
	body = vf15U16(body, len(suites))
	body = append(body, suites...)
	body = append(body, byte(len(comp)))
	body = append(body, comp...)
	body = vf15U16(body, len(out))
	body = append(body, out...)
	in.Recon = append([]byte{1, byte(len(body) >> 16), byte(len(body) >> 8), byte(len(body))}, body...)
	return in, nil
}

// vf15OpenPayload opens the outer hello's ECH payload. ctx == nil: set the receiver context up from enc.
func vf15OpenPayload(cfg *vf15ECHConfig, ctx *hpke.Receipient, h *vfHello, e *vfECHOuter) (*hpke.Receipient, []byte, error) {
	if ctx == nil {
		info := append([]byte("tls ech\x00"), cfg.Raw...)
		var err error
		ctx, err = hpke.SetupReceipient(cfg.KEM, e.KDF, e.AEAD, cfg.Priv, info, e.Enc)
		if err != nil {
			return nil, nil, fmt.Errorf("HPKE SetupBaseR: %v", err)
		}
	}
	// ClientHelloOuterAAD = ClientHelloOuter (without the handshake header) with the payload zeroed in place
	if bytes.Count(h.Raw, e.Payload) != 1 {
		return ctx, nil, errors.New("payload bytes not found exactly once in the outer hello")
	}
	aad := append([]byte(nil), h.Raw[4:]...)
	off := bytes.Index(aad, e.Payload)
	for i := range e.Payload {
		aad[off+i] = 0
	}
	pt, err := ctx.Open(aad, e.Payload)
	if err != nil {
		return ctx, nil, fmt.Errorf("HPKE Open: %v", err)
	}
	return ctx, pt, nil
}

// ---- identities ----

type vf15Ident struct {
	Name   string
	ID     ClientHelloID
	Golang bool
}

func vf15Identities(t testing.TB) []vf15Ident {
	var out []vf15Ident
	for _, p := range vfParrots {
		spec, err := UTLSIdToSpec(p.ID)
		if err != nil {
			t.Fatalf("UTLSIdToSpec(%s): %v", p.Name, err)
		}
		for _, e := range spec.Extensions {
			if _, ok := e.(EncryptedClientHelloExtension); ok {
				out = append(out, vf15Ident{Name: p.Name, ID: p.ID})
				break
			}
		}
	}
	out = append(out, vf15Ident{Name: "HelloGolang", ID: HelloGolang, Golang: true})
	return out
}

// ---- one case ----

const (
	vf15Accept    = "accept"
	vf15AcceptHRR = "accept-hrr"
	vf15Reject    = "reject"          // server holds a newer key; its public certificate covers only the public name
	vf15RejectCB  = "reject-callback" // same, client verifies the public certificate through EncryptedClientHelloRejectionVerify
	vf15RejectSAN = "reject-both-san" // same, but the public certificate also covers the secret name
	vf15RejectHRR = "reject-hrr"      // like reject-both-san, and the server first sends a HelloRetryRequest (not in the
	// property's quantifier: only the name hiding, the first hello and the outcome are checked)
)

var vf15Modes = []string{vf15Accept, vf15AcceptHRR, vf15Reject, vf15RejectCB, vf15RejectSAN, vf15RejectHRR}

type vf15Case struct {
	Ident      vf15Ident
	Mode       string
	Seed       uint64
	Secret     string // Config.ServerName
	SecretRand string // the random label inside Secret (>= 12 chars)
	Public     string
	ConfigID   uint8
	Suites     []vf15Suite
	MaxNameLen uint8
	Leading    string // "", or the kind of unusable config placed before the real one in the list
	Trailing   string // "", or what follows the real config in the list: a second usable config (key rotation) / an unknown version
	RetryCount int    // reject: number of configs the server offers for retry (>= 1)
	OlderKeys  int    // accept: number of other keys (other config ids / key pairs) the server lists BEFORE the matching one
	Warm       bool   // HelloGolang, accepting server: a first connection fills the session cache, so that the judged hello carries a PSK
	Prebuild   int    // number of explicit BuildHandshakeState calls before Handshake (0-2): the hello is marshalled and sealed again each time
	SpecPath   string // "" = predefined ID; "custom" = HelloCustom + ApplyPreset(UTLSIdToSpec(ID)); "custom-sni" = the same with SNIExtension.ServerName already filled in by the caller
}

func (c vf15Case) String() string {
	return fmt.Sprintf("%s/%s id=%d suites=%v maxname=%d public=%q secret=%q leading=%q trailing=%q retry=%d olderkeys=%d specpath=%q prebuild=%d warm=%v seed=%d",
		c.Ident.Name, c.Mode, c.ConfigID, c.Suites, c.MaxNameLen, c.Public, c.Secret, c.Leading, c.Trailing, c.RetryCount, c.OlderKeys, c.SpecPath, c.Prebuild, c.Warm, c.Seed)
}

const vf15Alnum = "abcdefghijklmnopqrstuvwxyz0123456789"

func vf15GenLabel(rt *rapid.T, label string, min, max int) string {
	n := rapid.IntRange(min, max).Draw(rt, label+"_n")
	b := make([]byte, n)
	for i := range b {
		b[i] = vf15Alnum[rapid.IntRange(0, len(vf15Alnum)-1).Draw(rt, fmt.Sprintf("%s_%d", label, i))]
	}
	if b[0] >= '0' && b[0] <= '9' {
		b[0] = 'x'
	}
	return string(b)
}

func vf15GenCase(rt *rapid.T, idents []vf15Ident) vf15Case {
	c := vf15Case{}
	c.Ident = idents[rapid.IntRange(0, len(idents)-1).Draw(rt, "ident")]
	if rapid.IntRange(0, 4).Draw(rt, "ident_golang") == 0 {
		for _, id := range idents {
			if id.Golang {
				c.Ident = id
			}
		}
	}
	c.Mode = vf15Modes[[]int{0, 0, 1, 1, 1, 2, 2, 3, 4, 5}[rapid.IntRange(0, 9).Draw(rt, "mode")]]
	c.Seed = rapid.Uint64().Draw(rt, "seed")
	c.SecretRand = vf15GenLabel(rt, "secret", 12, 40)
	switch rapid.IntRange(0, 3).Draw(rt, "secretShape") {
	case 0:
		c.Secret = c.SecretRand + ".test"
	case 1:
		c.Secret = "www." + c.SecretRand + ".c15.test"
	default:
		c.Secret = c.SecretRand + ".c15.test"
	}
	switch rapid.IntRange(0, 5).Draw(rt, "publicShape") {
	case 0:
		c.Public = "p.test"
	case 1: // long public name (public_name is opaque<1..255>, DNS names <= 253)
		n := rapid.IntRange(150, 240).Draw(rt, "publicLen")
		c.Public = vfDNSNameOfLen(n-5, byte('a'+rapid.IntRange(0, 25).Draw(rt, "publicFill"))) + ".test"
	default:
		c.Public = vf15GenLabel(rt, "public", 1, 30) + ".public.test"
	}
	c.ConfigID = rapid.Byte().Draw(rt, "configID")
	// AEAD list: a non-empty ordered selection of the three RFC 9180 AEADs with HKDF-SHA256, optionally preceded
	// by suites no implementation supports (the client must skip them)
	perm := rapid.Permutation([]uint16{1, 2, 3}).Draw(rt, "aeadOrder")
	n := rapid.IntRange(1, 3).Draw(rt, "nAEAD")
	if rapid.IntRange(0, 4).Draw(rt, "unsupportedFirst") == 0 {
		c.Suites = append(c.Suites, vf15Suite{0x0001, 0x7777})
		c.Suites = append(c.Suites, vf15Suite{0x0009, 0x0001})
	}
	for _, a := range perm[:n] {
		c.Suites = append(c.Suites, vf15Suite{0x0001, a})
	}
	switch rapid.IntRange(0, 3).Draw(rt, "maxNameKind") {
	case 0:
		c.MaxNameLen = uint8([]int{0, 1, 254, 255, len(c.Secret), len(c.Secret) - 1, len(c.Secret) + 1}[rapid.IntRange(0, 6).Draw(rt, "maxNameB")])
	default:
		c.MaxNameLen = rapid.Byte().Draw(rt, "maxName")
	}
	if rapid.IntRange(0, 2).Draw(rt, "trailingKind") == 0 {
		c.Trailing = []string{"second-valid-config", "unknown-version", "second-valid-config-other-suites"}[rapid.IntRange(0, 2).Draw(rt, "trailing")]
	}
	if rapid.IntRange(0, 3).Draw(rt, "leadingKind") == 0 {
		c.Leading = []string{"unknown-version", "unsupported-kem", "mandatory-extension", "bad-public-name"}[rapid.IntRange(0, 3).Draw(rt, "leading")]
	}
	c.RetryCount = rapid.IntRange(1, 2).Draw(rt, "retryCount")
	c.OlderKeys = rapid.IntRange(0, 3).Draw(rt, "olderServerKeys")
	c.Prebuild = rapid.SampledFrom([]int{0, 0, 1, 2}).Draw(rt, "prebuild")
	c.Warm = rapid.Bool().Draw(rt, "warm_session_cache")
	if !c.Ident.Golang {
		c.SpecPath = rapid.SampledFrom([]string{"", "", "custom", "custom-sni"}).Draw(rt, "specPath")
	}
	return c
}

type vf15Result struct {
	cerr, serr   error
	serverSawSNI []string
	hellos       int
}

// vf15HRRGroup: a classical group the identity lists without sending a share (read off a throw-away hello).
func vf15HRRGroup(ident vf15Ident, ccfg *Config) (CurveID, error) {
	if ident.Golang {
		// crypto/tls defaults: X25519MLKEM768+X25519 shares; P-256/P-384/P-521 listed without share
		return CurveP256, nil
	}
	cp, _ := vfPipe()
	uc := UClient(cp, ccfg.Clone(), ident.ID)
	if err := uc.BuildHandshakeState(); err != nil {
		return 0, err
	}
	h := vfParseClientHello(uc.HandshakeState.Hello.Raw)
	shared := map[uint16]bool{}
	for _, ks := range h.KeyShares() {
		shared[ks.Group] = true
	}
	for _, want := range []uint16{uint16(CurveP384), uint16(CurveP256), uint16(CurveP521), uint16(X25519)} {
		if vfContains16(h.Groups(), want) && !shared[want] {
			return CurveID(want), nil
		}
	}
	return 0, errors.New("no classical group listed without a key share")
}

func vf15Run(st *vfStats, t vfFataler, c vf15Case) {
	st.Eval()
	fail := func(format string, a ...any) {
		t.Helper()
		st.Violation(t, "%s: %s", c.String(), fmt.Sprintf(format, a...))
	}
	st.Class("id:" + c.Ident.Name)
	st.Class("mode:" + c.Mode)
	if c.Leading != "" {
		st.Class("list-leading:" + c.Leading)
	}
	switch {
	case int(c.MaxNameLen) < len(c.Secret):
		st.Class("maxname<len(name)")
	case int(c.MaxNameLen) == len(c.Secret):
		st.Class("maxname==len(name)")
	default:
		st.Class("maxname>len(name)")
	}

	// the config the client knows, and what the server holds
	cfg := vf15NewECHConfig(c.Seed, "client", c.ConfigID, c.Suites, c.MaxNameLen, c.Public)
	var listParts [][]byte
	switch c.Leading {
	case "unknown-version":
		x := vf15NewECHConfig(c.Seed, "lead", c.ConfigID+1, c.Suites, 0, c.Public)
		x.Version = 0xfe0a
		x.marshal()
		listParts = append(listParts, x.Raw)
	case "unsupported-kem":
		x := vf15NewECHConfig(c.Seed, "lead", c.ConfigID+1, c.Suites, 0, c.Public)
		x.KEM = 0x0010
		x.marshal()
		listParts = append(listParts, x.Raw)
	case "mandatory-extension":
		x := vf15NewECHConfig(c.Seed, "lead", c.ConfigID+1, c.Suites, 0, c.Public)
		x.Exts = []vfExt{{Type: 0xff77, Body: []byte{1, 2, 3}}}
		x.marshal()
		listParts = append(listParts, x.Raw)
	case "bad-public-name":
		x := vf15NewECHConfig(c.Seed, "lead", c.ConfigID+1, c.Suites, 0, "nodots")
		listParts = append(listParts, x.Raw)
	}
	listParts = append(listParts, cfg.Raw)
	// what follows the config the client must pick (the first usable one) must not matter
	switch c.Trailing {
	case "second-valid-config":
		x := vf15NewECHConfig(c.Seed, "trail", c.ConfigID+7, c.Suites, c.MaxNameLen, c.Public)
		listParts = append(listParts, x.Raw)
	case "second-valid-config-other-suites":
		x := vf15NewECHConfig(c.Seed, "trail2", c.ConfigID+9, c.Suites, 0, "other."+c.Public)
		listParts = append(listParts, x.Raw)
	case "unknown-version":
		x := vf15NewECHConfig(c.Seed, "trail", c.ConfigID+7, c.Suites, 0, c.Public)
		x.Version = 0xfe0a
		x.marshal()
		listParts = append(listParts, x.Raw)
	}
	if c.Trailing != "" {
		st.Class("list-trailing:" + c.Trailing)
	}
	clientList := vf15ConfigList(listParts...)

	reject := strings.HasPrefix(c.Mode, "reject")
	var serverKeys []EncryptedClientHelloKey
	var wantRetry []byte
	if !reject {
		// a server in the middle of a key rotation: other keys listed before (and one after) the matching one
		for i := 0; i < c.OlderKeys; i++ {
			n := vf15NewECHConfig(c.Seed, fmt.Sprintf("older%d", i), c.ConfigID+uint8(20+i), []vf15Suite{{1, 1}, {1, 3}}, c.MaxNameLen, c.Public)
			serverKeys = append(serverKeys, EncryptedClientHelloKey{Config: n.Raw, PrivateKey: n.Priv.Bytes(), SendAsRetry: i%2 == 0})
		}
		serverKeys = append(serverKeys, EncryptedClientHelloKey{Config: cfg.Raw, PrivateKey: cfg.Priv.Bytes(), SendAsRetry: true})
		if c.OlderKeys > 1 {
			n := vf15NewECHConfig(c.Seed, "newer", c.ConfigID+40, []vf15Suite{{1, 1}}, c.MaxNameLen, c.Public)
			serverKeys = append(serverKeys, EncryptedClientHelloKey{Config: n.Raw, PrivateKey: n.Priv.Bytes(), SendAsRetry: false})
		}
		st.Class(fmt.Sprintf("server-keys-before-the-matching-one=%d", c.OlderKeys))
	} else {
		// the server rotated its key: same config id and public name, new key pair(s)
		var retryRaws [][]byte
		for i := 0; i < c.RetryCount; i++ {
			n := vf15NewECHConfig(c.Seed, fmt.Sprintf("rotated%d", i), c.ConfigID+uint8(i), []vf15Suite{{1, 1}, {1, 3}}, c.MaxNameLen, c.Public)
			serverKeys = append(serverKeys, EncryptedClientHelloKey{Config: n.Raw, PrivateKey: n.Priv.Bytes(), SendAsRetry: true})
			retryRaws = append(retryRaws, n.Raw)
		}
		// one more key that is not advertised for retry
		hidden := vf15NewECHConfig(c.Seed, "hidden", c.ConfigID+9, []vf15Suite{{1, 1}}, c.MaxNameLen, c.Public)
		serverKeys = append(serverKeys, EncryptedClientHelloKey{Config: hidden.Raw, PrivateKey: hidden.Priv.Bytes(), SendAsRetry: false})
		wantRetry = vf15ConfigList(retryRaws...)
	}

	secretLeaf := vfLeaf(vfLeafSpec{Names: []string{c.Secret}})
	publicNames := []string{c.Public}
	if c.Mode == vf15RejectSAN || c.Mode == vf15RejectHRR {
		publicNames = []string{c.Public, c.Secret}
	}
	publicLeaf := vfLeaf(vfLeafSpec{Names: publicNames})

	ccfg := vfClientConfig(c.Secret)
	ccfg.EncryptedClientHelloConfigList = clientList
	ccfg.Rand = vfNewDetRand(c.Seed, "client-rand")
	cbCalled := 0
	if c.Mode == vf15RejectCB {
		ccfg.EncryptedClientHelloRejectionVerify = func(cs ConnectionState) error {
			cbCalled++
			// Not asserted: like upstream crypto/tls (1.23 - 1.26) the callback runs before c.peerCertificates is
			// assigned, so cs.PeerCertificates is empty here. The property says nothing about the callback's view.
			if len(cs.PeerCertificates) == 0 {
				st.Class("rejection-callback-saw-no-peer-certificates(upstream behaviour)")
			}
			return nil
		}
	}

	res := &vf15Result{}
	scfg := &Config{
		MinVersion: VersionTLS12, MaxVersion: VersionTLS13, Time: vfNow,
		EncryptedClientHelloKeys: serverKeys,
		GetCertificate: func(chi *ClientHelloInfo) (*Certificate, error) {
			if chi.ServerName == c.Public {
				return publicLeaf, nil
			}
			return secretLeaf, nil
		},
	}
	scfg.GetConfigForClient = func(chi *ClientHelloInfo) (*Config, error) {
		res.serverSawSNI = append(res.serverSawSNI, chi.ServerName)
		return nil, nil
	}
	hrr := c.Mode == vf15AcceptHRR || c.Mode == vf15RejectHRR
	if hrr {
		g, err := vf15HRRGroup(c.Ident, ccfg)
		if err != nil {
			fail("cannot determine a HelloRetryRequest group: %v", err)
		}
		scfg.CurvePreferences = []CurveID{g}
	}

	if c.Warm && c.Ident.Golang && !reject {
		// resumption inside ECH: the PSK travels in the inner hello, and after a HelloRetryRequest its binder is recomputed
		// over the inner transcript
		ccfg.ClientSessionCache = NewLRUClientSessionCache(4)
		scfg.SetSessionTicketKeys([][32]byte{{1, 2, 3, byte(c.Seed)}})
		warmS := scfg.Clone()
		warmS.CurvePreferences = nil
		wp := vfNewPair(ccfg, c.Ident.ID, warmS)
		if cerr, serr := wp.Handshake(); cerr == nil && serr == nil && wp.Echo([]byte("w"), []byte("W")) == nil {
			st.Class("warm-session-cache")
		}
		wp.Close()
		res.serverSawSNI = nil
	}
	pair := vfNewPair(ccfg, c.Ident.ID, scfg)
	if c.SpecPath != "" && !c.Ident.Golang {
		// the same fingerprint through the custom-spec path; a hand-written spec often names the host in its SNIExtension
		spec, err := UTLSIdToSpec(c.Ident.ID)
		if err != nil {
			fail("UTLSIdToSpec: %v", err)
		}
		if c.SpecPath == "custom-sni" {
			for _, e := range spec.Extensions {
				if sni, ok := e.(*SNIExtension); ok {
					sni.ServerName = c.Secret
				}
			}
		}
		pair.Close()
		pair = vfNewPair(ccfg, HelloCustom, scfg)
		if err := pair.Cli.ApplyPreset(&spec); err != nil {
			fail("ApplyPreset: %v", err)
		}
		st.Class("spec-path:" + c.SpecPath)
	}
	defer pair.Close()
	for i := 0; i < c.Prebuild; i++ {
		// documented: the hello may be built (and inspected) before Handshake; with ECH every build seals a fresh inner hello
		if err := pair.Cli.BuildHandshakeState(); err != nil {
			fail("BuildHandshakeState before Handshake: %v", err)
		}
	}
	if c.Prebuild > 0 {
		st.Class(fmt.Sprintf("prebuilt:%d", c.Prebuild))
	}
	res.cerr, res.serr = pair.Handshake()
	written := pair.CP.Written()

	// ---- 1. nothing the client wrote contains the secret name ----
	for _, needle := range []string{c.Secret, c.SecretRand} {
		if i := bytes.Index(bytes.ToLower(written), []byte(needle)); i >= 0 {
			fail("the secret name %q appears in the bytes written by the client at offset %d", needle, i)
		}
	}

	// ---- 2. outer hello(s), decryption, inner hello(s) ----
	hellos := vfClientHellosOnWire(written)
	res.hellos = len(hellos)
	if len(hellos) == 0 {
		fail("no ClientHello on the wire; client error %v", res.cerr)
	}
	knownHRR := false
	var ctx *hpke.Receipient
	var firstECH *vfECHOuter
	for i, raw := range hellos {
		h := vfParseClientHello(raw)
		if len(h.Violations) > 0 {
			fail("outer hello %d malformed: %v", i+1, h.Violations)
		}
		if sni, ok := h.SNI(); !ok || sni != c.Public {
			fail("outer hello %d: SNI %q (present=%v), want the public name %q", i+1, sni, ok, c.Public)
		}
		if i == 1 && c.Mode == vf15RejectHRR {
			break // what the second outer hello of a *rejected* offer carries is not part of the property
		}
		e := h.ECH()
		if e == nil || e.Type != 0 {
			fail("outer hello %d carries no outer encrypted_client_hello extension", i+1)
		}
		if e.ConfigID != c.ConfigID {
			fail("outer hello %d: ECH config id %d, config has %d", i+1, e.ConfigID, c.ConfigID)
		}
		suiteOK := false
		for _, s := range c.Suites {
			// HKDF-SHA256 with one of the three AEADs is what any implementation of the draft supports
			if s.KDF == e.KDF && s.AEAD == e.AEAD && s.KDF == 1 && s.AEAD >= 1 && s.AEAD <= 3 {
				suiteOK = true
			}
		}
		if !suiteOK {
			fail("outer hello %d: ECH suite (%#x,%#x) is not a usable suite of the config %v", i+1, e.KDF, e.AEAD, c.Suites)
		}
		if i == 0 {
			if len(e.Enc) != 32 {
				fail("outer hello 1: enc has %d bytes, want 32 (X25519)", len(e.Enc))
			}
			firstECH = e
		} else {
			if len(e.Enc) != 0 {
				fail("outer hello 2: enc must be empty after a HelloRetryRequest, has %d bytes", len(e.Enc))
			}
			if e.KDF != firstECH.KDF || e.AEAD != firstECH.AEAD {
				fail("outer hello 2: ECH suite changed across the HelloRetryRequest")
			}
		}
		var pt []byte
		var err error
		ctx, pt, err = vf15OpenPayload(cfg, ctx, h, e)
		if err != nil {
			if i == 1 && !c.Ident.Golang && c.Mode == vf15AcceptHRR {
				knownHRR = true
				break
			}
			fail("outer hello %d: cannot open the ECH payload with the config's private key: %v", i+1, err)
		}
		if len(e.Payload) != len(pt)+16 {
			fail("outer hello %d: payload %d bytes for %d bytes of plaintext", i+1, len(e.Payload), len(pt))
		}
		in, err := vf15DecodeInner(pt, h)
		if err != nil {
			fail("outer hello %d: EncodedClientHelloInner: %v", i+1, err)
		}
		ih := vfParseClientHello(in.Recon)
		if len(ih.Violations) > 0 {
			fail("inner hello %d malformed after expansion: %v", i+1, ih.Violations)
		}
		if sni, ok := ih.SNI(); !ok || sni != c.Secret {
			fail("inner hello %d: SNI %q (present=%v), want Config.ServerName %q", i+1, sni, ok, c.Secret)
		}
		if x := ih.Ext(0xfe0d); x == nil || !bytes.Equal(x.Body, []byte{1}) {
			fail("inner hello %d lacks the inner encrypted_client_hello marker", i+1)
		}
		if bytes.Equal(ih.Random, h.Random) {
			fail("inner hello %d reuses the outer random", i+1)
		}
		// every expanded extension now equals the outer one by construction; make sure the references were real
		for _, ref := range in.OuterRefs {
			if oe, ie := h.Ext(ref), ih.Ext(ref); oe == nil || ie == nil || !bytes.Equal(oe.Body, ie.Body) {
				fail("inner hello %d: compressed extension %d does not expand to the outer value", i+1, ref)
			}
		}
		if i == 1 {
			// after the retry request the inner hello must carry the share the server asked for
			ks := ih.KeyShares()
			if len(ks) != 1 {
				if !c.Ident.Golang && c.Mode == vf15AcceptHRR {
					knownHRR = true
				} else {
					fail("inner hello 2 carries %d key shares", len(ks))
				}
			}
		}
		st.Class(fmt.Sprintf("inner-compressed-exts:%d", len(in.OuterRefs)))
		if in.EncLen%32 == 0 {
			st.Class("inner-encoded-len-multiple-of-32")
		} else {
			st.Class("inner-encoded-len-not-multiple-of-32")
		}
	}
	wantHellos := 1
	if hrr {
		wantHellos = 2
	}
	if len(hellos) != wantHellos {
		fail("%d ClientHello(s) on the wire, expected %d", len(hellos), wantHellos)
	}

	// ---- 3. outcome ----
	switch {
	case !reject:
		if res.cerr != nil || res.serr != nil {
			if c.Mode == vf15AcceptHRR && !c.Ident.Golang {
				st.Class("known:" + vf15KeyParrotHRR)
				st.KnownOrViolation(t, vf15KeyParrotHRR, "%s: ECH accepted + HelloRetryRequest fails: client=%v server=%v", c.String(), res.cerr, res.serr)
				return
			}
			fail("accepting server, handshake failed: client=%v server=%v", res.cerr, res.serr)
		}
		if knownHRR {
			fail("second hello was inconsistent and yet the handshake completed")
		}
		cs, ss := pair.Cli.ConnectionState(), pair.Srv.ConnectionState()
		if !cs.ECHAccepted || !ss.ECHAccepted {
			fail("ECHAccepted: client=%v server=%v, want both true", cs.ECHAccepted, ss.ECHAccepted)
		}
		if cs.ServerName != c.Secret || ss.ServerName != c.Secret {
			fail("ServerName: client=%q server=%q, want %q on both", cs.ServerName, ss.ServerName, c.Secret)
		}
		if len(cs.PeerCertificates) == 0 || !cs.PeerCertificates[0].Equal(secretLeaf.Leaf) {
			fail("client did not receive the certificate of the secret name")
		}
		for _, s := range res.serverSawSNI {
			if s != c.Secret {
				fail("server's GetConfigForClient saw ServerName %q, want the inner name", s)
			}
		}
		if c.Mode == vf15AcceptHRR && !pair.Cli.didHRR {
			fail("server was configured to force a HelloRetryRequest but none happened")
		}
		if err := pair.Echo([]byte("ping-"+c.SecretRand), []byte("pong")); err != nil {
			fail("data exchange after the ECH handshake: %v", err)
		}
		// application data must not leak the name either (it contains it in the clear before encryption)
		if i := bytes.Index(pair.CP.Written(), []byte(c.SecretRand)); i >= 0 {
			fail("secret label visible on the wire after the handshake at offset %d", i)
		}
	default:
		var rej *ECHRejectionError
		if !errors.As(res.cerr, &rej) {
			var cve *CertificateVerificationError
			if c.Mode == vf15Reject && errors.As(res.cerr, &cve) {
				var hn x509.HostnameError
				if errors.As(cve.Err, &hn) && hn.Host == c.Secret {
					st.Class("known:" + vf15KeyRejectedSecretName)
					st.KnownOrViolation(t, vf15KeyRejectedSecretName, "%s: ECH rejected, public certificate is valid for %q but was verified against the secret name: %v", c.String(), c.Public, res.cerr)
					return
				}
			}
			fail("rejecting server: client returned %T %v (server: %v), want *ECHRejectionError", res.cerr, res.cerr, res.serr)
		}
		if !bytes.Equal(rej.RetryConfigList, wantRetry) {
			fail("RetryConfigList\n got  %x\n want %x", rej.RetryConfigList, wantRetry)
		}
		if hrr && !pair.Cli.didHRR {
			fail("server was configured to force a HelloRetryRequest but none happened")
		}
		if c.Mode == vf15RejectCB && cbCalled != 1 {
			fail("EncryptedClientHelloRejectionVerify called %d times", cbCalled)
		}
		if pair.Cli.ConnectionState().ECHAccepted {
			fail("client reports ECHAccepted after a rejection")
		}
		if pair.Cli.ConnectionState().HandshakeComplete {
			fail("client reports a complete handshake after a rejection")
		}
		for _, s := range res.serverSawSNI {
			if s != c.Public {
				fail("rejecting server saw ServerName %q, want only the public name", s)
			}
		}
	}

	st.Class(fmt.Sprintf("aead-picked:%d", firstECH.AEAD))
	st.NonTrivial(fmt.Sprintf("%s|%s|%v|%d|%s", c.Ident.Name, c.Mode, c.Suites, c.MaxNameLen, c.Leading))
	st.Sample(map[string]any{"case": c.String(), "hellos": len(hellos), "client_err": fmt.Sprint(res.cerr), "server_saw": res.serverSawSNI})
}

func vf15DirectedCase(id vf15Ident, mode string, n int) vf15Case {
	return vf15Case{
		Ident: id, Mode: mode, Seed: uint64(1000 + n),
		Secret: fmt.Sprintf("hidden%02dservicename.c15.test", n), SecretRand: fmt.Sprintf("hidden%02dservicename", n),
		Public: "public.c15.test", ConfigID: uint8(17 * n), Suites: []vf15Suite{{1, 1}, {1, 2}, {1, 3}},
		MaxNameLen: uint8(n * 37), RetryCount: 1 + n%2, OlderKeys: n % 3, SpecPath: []string{"", "custom-sni", "custom", ""}[n%4], Prebuild: []int{0, 1, 0, 2, 1}[n%5], Warm: n%2 == 0,
	}
}

// Directed: every ECH-capable identity x every server behaviour.
func TestVerifC15Directed(t *testing.T) {
	st := vfNewStats(t, "C15")
	idents := vf15Identities(t)
	var names []string
	for _, i := range idents {
		names = append(names, i.Name)
	}
	st.Extra("ech_capable_identities", names)
	for _, must := range []string{"HelloChrome_120", "HelloChrome_120_PQ", "HelloChrome_131", "HelloChrome_133", "HelloFirefox_120", "HelloGolang"} {
		found := false
		for _, n := range names {
			found = found || n == must
		}
		if !found {
			st.Violation(t, "%s is not ECH-capable (found %v)", must, names)
		}
	}
	n := 0
	for _, id := range idents {
		for _, mode := range vf15Modes {
			n++
			vf15Run(st, t, vf15DirectedCase(id, mode, n))
			if id.Golang {
				// HelloGolang both with a cold and with a warm session cache (PSK inside the inner hello)
				c := vf15DirectedCase(id, mode, n)
				c.Warm = !c.Warm
				vf15Run(st, t, c)
			}
		}
	}
}

func TestVerifC15Random(t *testing.T) {
	st := vfNewStats(t, "C15")
	idents := vf15Identities(t)
	rapid.Check(t, func(rt *rapid.T) {
		vf15Run(st, rt, vf15GenCase(rt, idents))
	})
}
