//go:build verif

package tls

// C02 - every ClientHello utls emits is syntactically valid TLS, or BuildHandshakeState/Handshake returns an error.
// Oracle: the independent strict parser vfParseClientHello (common_refparse_test.go) plus the extra checks
// below (vf02ExtraViolations). Sources: parrots, randomized ids, generated custom specs (c02_genspec_test.go),
// specs fingerprinted / JSON-imported from rewritten valid hellos; x Config variations.

import (
	"encoding/binary"
	"fmt"
	"sort"
	"strings"
	"testing"

	"pgregory.net/rapid"
)

const (
	vf02KeyECHShort  = "C02:ech-grease-short-payload"
	vf02KeyExtBlock  = "C02:extensions-block-overflow"
	vf02MaxBaseBlock = 60000 // bases with a larger extensions block are not rewritten (keeps the rewritten input encodable)
)

// ---- extra strict checks on top of common_refparse (gaps found while writing C02; see notes/C02.md) ----

func vf02ExtraViolations(h *vfHello) []string {
	var out []string
	if len(h.Random) != 32 {
		out = append(out, fmt.Sprintf("random has %d bytes", len(h.Random)))
	}
	if h.HasExts && len(h.Raw) >= 4 {
		// the extensions block must fit its 16-bit length prefix (the parser reports a mismatch; this names it)
		n := 0
		for _, e := range h.Exts {
			n += 4 + len(e.Body)
		}
		if n > 65535 {
			out = append(out, fmt.Sprintf("extensions add up to %d bytes", n))
		}
	}
	for _, e := range h.Exts {
		b := e.Body
		switch e.Type {
		case 0:
			if name, ok := h.SNI(); ok {
				if len(name) > 255 {
					out = append(out, "host_name longer than 255 bytes")
				}
				for _, l := range strings.Split(name, ".") {
					if len(l) > 63 && len(name) <= 253 {
						// labels are the caller's business; only flagged for information by callers that want it
						_ = l
					}
				}
			}
		case 24:
			if len(b) >= 3 && b[2] == 0 {
				out = append(out, "token_binding: empty key_parameters_list")
			}
		case 17513, 17613:
			if len(b) == 2 {
				out = append(out, "application_settings: empty supported_protocols")
			}
		case 22:
			if len(b) != 0 {
				out = append(out, "encrypt_then_mac must be empty")
			}
		case 45:
			// already covered; nothing more
		}
	}
	return out
}

// vf02OverflowSignature reports whether msg is a hello that is well-formed except that the 16-bit
// extensions-block length was truncated: the bytes after compression_methods are (2-byte field, N > 65535 bytes
// of back-to-back well-formed extensions with N mod 65536 == field).
func vf02OverflowSignature(msg []byte) (bool, int) {
	if len(msg) < 4+2+32+1 {
		return false, 0
	}
	r := &vfRd{b: msg[4:]}
	r.u16()
	r.take(32)
	r.vec8()
	r.vec16()
	r.vec8()
	if r.err || len(r.b) < 2 {
		return false, 0
	}
	field := int(binary.BigEndian.Uint16(r.b))
	rest := r.b[2:]
	if len(rest) <= 65535 || len(rest)%65536 != field {
		return false, 0
	}
	er := &vfRd{b: rest}
	for !er.empty() {
		er.u16()
		er.vec16()
		if er.err {
			return false, 0
		}
	}
	return true, len(rest)
}

// ---- serializer for parsed hellos (the inverse of the reference parser) ----

func vf02Serialize(h *vfHello) []byte {
	var body []byte
	body = binary.BigEndian.AppendUint16(body, h.Version)
	body = append(body, h.Random...)
	body = append(body, byte(len(h.SessionID)))
	body = append(body, h.SessionID...)
	body = binary.BigEndian.AppendUint16(body, uint16(2*len(h.Suites)))
	for _, s := range h.Suites {
		body = binary.BigEndian.AppendUint16(body, s)
	}
	body = append(body, byte(len(h.Compression)))
	body = append(body, h.Compression...)
	if h.HasExts {
		var eb []byte
		for _, e := range h.Exts {
			eb = binary.BigEndian.AppendUint16(eb, e.Type)
			eb = binary.BigEndian.AppendUint16(eb, uint16(len(e.Body)))
			eb = append(eb, e.Body...)
		}
		body = binary.BigEndian.AppendUint16(body, uint16(len(eb)))
		body = append(body, eb...)
	}
	msg := []byte{1, byte(len(body) >> 16), byte(len(body) >> 8), byte(len(body))}
	return append(msg, body...)
}

func vf02ExtBlockLen(h *vfHello) int {
	n := 0
	for _, e := range h.Exts {
		n += 4 + len(e.Body)
	}
	return n
}

// vf02Record wraps a handshake message into a single TLS record as the fingerprinter expects it.
func vf02Record(msg []byte) []byte {
	n := len(msg)
	if n > 0xffff {
		n = 0xffff
	}
	return append([]byte{22, 3, 1, byte(n >> 8), byte(n)}, msg...)
}

// ---- grammar-preserving rewrites ----

type vf02Rewrite struct {
	Desc          []string
	ECHPayload    int // -1 = no ECH rewritten
	Representable bool
}

func vf02Zeros(n int) []byte { return make([]byte, n) }

// vf02RewriteHello resizes opaque fields of a valid hello, keeping it valid.
func vf02RewriteHello(t *rapid.T, h *vfHello) vf02Rewrite {
	rw := vf02Rewrite{ECHPayload: -1}
	for i := range h.Exts {
		e := &h.Exts[i]
		l := fmt.Sprintf("rw%d", i)
		switch {
		case e.Type == 0xfe0d:
			ec := h.ECH()
			if ec == nil || ec.Type != 0 {
				continue
			}
			if !rapid.Bool().Draw(t, l+"_ech") {
				continue
			}
			n := []int{1, 2, 5, 15, 16, 17, 32, 144, 300}[rapid.IntRange(0, 8).Draw(t, l+"_echn")]
			if rapid.IntRange(0, 3).Draw(t, l+"_echany") == 0 {
				n = rapid.IntRange(1, 300).Draw(t, l+"_echlen")
			}
			var b []byte
			b = append(b, 0)
			b = binary.BigEndian.AppendUint16(b, ec.KDF)
			b = binary.BigEndian.AppendUint16(b, ec.AEAD)
			b = append(b, ec.ConfigID)
			b = binary.BigEndian.AppendUint16(b, uint16(len(ec.Enc)))
			b = append(b, ec.Enc...)
			b = binary.BigEndian.AppendUint16(b, uint16(n))
			b = append(b, vfGsBytes(t, l+"_echp", n)...)
			e.Body = b
			rw.ECHPayload = n
			rw.Desc = append(rw.Desc, fmt.Sprintf("ech-payload=%d", n))
		case vfIsGREASE(e.Type):
			if rapid.Bool().Draw(t, l+"_g") {
				n := []int{0, 1, 2, 17, 300}[rapid.IntRange(0, 4).Draw(t, l+"_gn")]
				e.Body = vfGsBytes(t, l+"_gb", n)
				rw.Desc = append(rw.Desc, fmt.Sprintf("grease-body=%d", n))
			}
		case e.Type == 21:
			if rapid.Bool().Draw(t, l+"_p") {
				n := []int{0, 1, 2, 100, 600}[rapid.IntRange(0, 4).Draw(t, l+"_pn")]
				e.Body = vf02Zeros(n)
				rw.Desc = append(rw.Desc, fmt.Sprintf("padding=%d", n))
			}
		case e.Type == 35:
			if rapid.IntRange(0, 3).Draw(t, l+"_t") == 0 {
				n := []int{0, 1, 64, 300}[rapid.IntRange(0, 3).Draw(t, l+"_tn")]
				e.Body = vfGsBytes(t, l+"_tb", n)
				rw.Desc = append(rw.Desc, fmt.Sprintf("ticket=%d", n))
			}
		case e.Type == 51:
			shares := h.KeyShares()
			changed := false
			for j := range shares {
				known := vf02ImplGroups[shares[j].Group]
				if known {
					continue
				}
				if rapid.Bool().Draw(t, fmt.Sprintf("%s_ks%d", l, j)) {
					n := []int{1, 2, 3, 31, 33, 500, 2000}[rapid.IntRange(0, 6).Draw(t, fmt.Sprintf("%s_ksn%d", l, j))]
					shares[j].Data = vfGsBytes(t, fmt.Sprintf("%s_ksd%d", l, j), n)
					changed = true
					gk := "unknown"
					if vfIsGREASE(shares[j].Group) {
						gk = "grease"
					}
					rw.Desc = append(rw.Desc, fmt.Sprintf("share-%s=%d", gk, n))
				}
			}
			if changed {
				var lst []byte
				for _, s := range shares {
					lst = binary.BigEndian.AppendUint16(lst, s.Group)
					lst = binary.BigEndian.AppendUint16(lst, uint16(len(s.Data)))
					lst = append(lst, s.Data...)
				}
				e.Body = append(binary.BigEndian.AppendUint16(nil, uint16(len(lst))), lst...)
			}
		}
	}
	return rw
}

// ---- sources ----

type vf02Case struct {
	Source string // parrot | randomized | custom
	Name   string
	ID     ClientHelloID
	Meta   *vfSpecMeta
	Spec   *ClientHelloSpec
}

func vf02GenSource(t *rapid.T, st *vfStats) vf02Case {
	switch k := rapid.IntRange(0, 9).Draw(t, "source"); {
	case k < 3:
		p := vfGenParrot(t, "parrot")
		return vf02Case{Source: "parrot", Name: p.Name, ID: p.ID}
	case k < 5:
		r := vfGenRandomizedID(t, "rnd")
		return vf02Case{Source: "randomized", Name: r.Name + ":" + r.SeedHx, ID: r.ID}
	default:
		spec, meta := vfGenCustomSpec(t)
		return vf02Case{Source: "custom", Name: meta.Mode, ID: HelloCustom, Meta: meta, Spec: spec}
	}
}

// vf02Build creates the UConn for the case under the config variation and runs BuildHandshakeState.
func vf02Build(c vf02Case, cfg *Config, cm vfCfgMeta, conn *vfConn) (uc *UConn, err error, pan *vfPanic) {
	pan = vfCatch(func() {
		if c.Spec != nil {
			uc, err = vfNewCustomUConn(conn, cfg, cm, c.Spec)
			if err != nil {
				return
			}
		} else {
			uc = vfNewUConn(conn, cfg, cm, c.ID)
		}
		err = uc.BuildHandshakeState()
	})
	return
}

func vf02ErrClass(err error) string {
	s := err.Error()
	for _, k := range []string{"empty psk", "unexpected ClientHello length", "unsupported Curve", "short buffer", "too many", "invalid binder size",
		"does not support", "no supported versions", "NextProtos", "at most 2 grease", "multiple padding", "must be specified", "no supported elliptic curves",
		"SupportedVersions extension has invalid", "unsupported extension", "not JSON compatible", "unknown", "bad ", "unable to read", "invalid PSK"} {
		if strings.Contains(s, k) {
			return k
		}
	}
	if len(s) > 40 {
		s = s[:40]
	}
	return s
}

type vf02Ctx struct {
	What       string
	ECHPayload int // rewritten ECH payload length of the fingerprinted input (-1 none)
}

// vf02CheckHello is the oracle for one emitted hello.
func vf02CheckHello(st *vfStats, t vfFataler, raw []byte, ctx vf02Ctx) *vfHello {
	h := vfParseClientHello(raw)
	viol := append(append([]string{}, h.Violations...), vf02ExtraViolations(h)...)
	if len(viol) == 0 {
		return h
	}
	detail := fmt.Sprintf("%s: emitted a %d-byte hello with err == nil and %d grammar violations: %s", ctx.What, len(raw), len(viol), strings.Join(viol[:min(3, len(viol))], "; "))
	if ctx.ECHPayload >= 0 && ctx.ECHPayload < 16 {
		st.Class("known:ech-short-payload")
		st.KnownOrViolation(t, vf02KeyECHShort, "%s", detail)
		return nil
	}
	if ok, n := vf02OverflowSignature(raw); ok {
		st.Class("known:ext-block-overflow")
		st.KnownOrViolation(t, vf02KeyExtBlock, "extensions block of %d bytes emitted with a truncated 16-bit length; %s", n, detail)
		return nil
	}
	st.Violation(t, "%s", detail)
	return nil
}

func vf02SizeClass(n int) string {
	switch {
	case n < 256:
		return "<256"
	case n < 512:
		return "256-511"
	case n < 2048:
		return "512-2047"
	case n < 16384:
		return "2k-16k"
	case n < 60000:
		return "16k-60k"
	default:
		return ">=60k"
	}
}

// ---- tests ----

// Parrots, randomized ids and generated custom specs under Config variations: BuildHandshakeState.
func TestVerifC02Build(t *testing.T) {
	st := vfNewStats(t, "C02")
	rapid.Check(t, func(rt *rapid.T) {
		c := vf02GenSource(rt, st)
		cfg, cm := vfGenClientCfg(rt, "cfg")
		cp, _ := vfPipe()
		st.Eval()
		st.Class("source:" + c.Source)
		st.Class("sni:" + cm.SNIKind)
		if cm.QUIC {
			st.Class("quic")
		}
		if c.Meta != nil {
			st.Class("custom-mode:" + c.Meta.Mode)
			for _, b := range c.Meta.Boundaries {
				st.Class("boundary:" + b)
			}
		}
		uc, err, pan := vf02Build(c, cfg, cm, cp)
		what := fmt.Sprintf("%s %s cfg=%s", c.Source, c.Name, cm.Key())
		if pan != nil {
			// a panic is not an error return; the property allows only "error or valid bytes"
			st.Violation(rt, "%s: BuildHandshakeState panicked: %v", what, pan.Val)
		}
		if err != nil {
			st.Class("outcome:error:" + vf02ErrClass(err))
			return
		}
		raw := uc.HandshakeState.Hello.Raw
		h := vf02CheckHello(st, rt, raw, vf02Ctx{What: what, ECHPayload: -1})
		if h == nil {
			return
		}
		st.Class("outcome:valid")
		st.Class("size:" + vf02SizeClass(len(raw)))
		// the generator's own size model must agree (documents that the valid output is the whole spec)
		if c.Meta != nil {
			if eb, total, ok := c.Meta.RefLen(cm.ServerName, cm.QUIC); ok && !(cm.Cache && c.Meta.HasPSK) {
				if nc := len(c.Meta.Compression); total != len(raw) && nc > 1 && total-len(raw) == nc-1 {
					// ApplyPreset never copies ClientHelloSpec.CompressionMethods (always sends {null}): valid bytes, so
					// not C02's business; C06 reports it (C06:spec-compression-methods-ignored)
					st.Class("note:spec-compression-methods-ignored")
				} else if total != len(raw) {
					st.Class("note:size-model-mismatch")
					st.Extra(fmt.Sprintf("size-model-mismatch-%d", len(raw)-total), fmt.Sprintf("%s: model %d (ext block %d) vs wire %d; %v", what, total, eb, len(raw), c.Meta.Describe()))
				} else {
					st.Class("note:size-model-agrees")
				}
			}
		}
		types := h.ExtTypes()
		ts := make([]string, len(types))
		for i, x := range types {
			if vfIsGREASE(x) {
				ts[i] = "G"
			} else {
				ts[i] = fmt.Sprint(x)
			}
		}
		sort.Strings(ts)
		if !(c.Source == "parrot" && cm.ServerName == "foobar") {
			st.NonTrivial(fmt.Sprintf("%s|%s|%s|%s", c.Source, cm.SNIKind, strings.Join(ts, ","), vf02SizeClass(len(raw))))
		}
		m := map[string]any{"source": c.Source, "name": c.Name, "cfg": cm.Key(), "len": len(raw), "exts": len(h.Exts)}
		if c.Meta != nil {
			m["spec"] = c.Meta.Describe()
		}
		st.Sample(m)
		// SNI on the wire follows RFC 6066 for every ServerName shape
		if name, ok := h.SNI(); ok {
			if want := vfRefSNIOnWire(name); want != name || name == "" {
				st.Violation(rt, "%s: server_name %q on the wire", what, name)
			}
		}
	})
}

// Exhaustive: every parrot x every ServerName shape (deterministic sweep).
func TestVerifC02ParrotsAllSNIShapes(t *testing.T) {
	st := vfNewStats(t, "C02")
	names := map[string]string{"empty": "", "ipv4": "192.0.2.1", "ipv6": "2001:db8::1", "ipv6-zone": "fe80::1%eth0", "ipv6-bracket": "[2001:db8::7]",
		"trailing-dot": "example.test.", "two-dots": "example.test..", "max253": vfDNSNameOfLen(253, 'm'), "one": "a", "label63": strings.Repeat("l", 63) + ".test",
		"plain": "example.test"}
	for _, n := range []int{200, 230, 245, 246, 247, 250} {
		names[fmt.Sprintf("len-%d", n)] = vfDNSNameOfLen(n, 'e')
	}
	kinds := make([]string, 0, len(names))
	for k := range names {
		kinds = append(kinds, k)
	}
	sort.Strings(kinds)
	for _, p := range vfParrots {
		for _, k := range kinds {
			for _, omit := range []bool{true, false} {
				if !omit && !vfIsPSKParrot(p) {
					continue
				}
				cm := vfCfgMeta{SNIKind: k, ServerName: names[k], OmitEmptyPsk: omit, RandSeed: 7}
				cfg := cm.Config()
				cp, _ := vfPipe()
				st.Eval()
				st.Class("sni:" + k)
				uc, err, pan := vf02Build(vf02Case{Source: "parrot", Name: p.Name, ID: p.ID}, cfg, cm, cp)
				what := fmt.Sprintf("parrot %s sni=%s omit=%v", p.Name, k, omit)
				if pan != nil {
					st.Violation(t, "%s: panic %v", what, pan.Val)
				}
				if err != nil {
					st.Class("outcome:error:" + vf02ErrClass(err))
					if omit {
						// with OmitEmptyPsk every parrot is documented to build
						st.Violation(t, "%s: BuildHandshakeState failed: %v", what, err)
					}
					continue
				}
				h := vf02CheckHello(st, t, uc.HandshakeState.Hello.Raw, vf02Ctx{What: what, ECHPayload: -1})
				if h == nil {
					continue
				}
				st.Class("outcome:valid")
				st.NonTrivial(p.Name + "|" + k)
				name, present := h.SNI()
				want := vfRefSNIOnWire(names[k])
				if (want == "") == present || name != want {
					st.Violation(t, "%s: server_name present=%v %q, want %q", what, present, name, want)
				}
			}
		}
	}
}

// Directed cases for the two known findings plus their in-range neighbours (which must stay valid).
func TestVerifC02Directed(t *testing.T) {
	st := vfNewStats(t, "C02")
	// (1) extensions block: two GenericExtensions, each within its own 16-bit limit
	for _, sz := range [][2]int{{30000, 30000}, {32700, 32700}, {40000, 40000}, {65535, 65535}} {
		st.Eval()
		spec := &ClientHelloSpec{CipherSuites: []uint16{TLS_AES_128_GCM_SHA256}, CompressionMethods: []uint8{0},
			Extensions: []TLSExtension{&SNIExtension{}, &SupportedVersionsExtension{Versions: []uint16{VersionTLS13, VersionTLS12}},
				&GenericExtension{Id: 0x7a01, Data: make([]byte, sz[0])}, &GenericExtension{Id: 0x7a02, Data: make([]byte, sz[1])}}}
		cm := vfCfgMeta{ServerName: "example.test", RandSeed: 1}
		cp, _ := vfPipe()
		uc, err, pan := vf02Build(vf02Case{Source: "custom", Name: "directed", ID: HelloCustom, Spec: spec}, cm.Config(), cm, cp)
		what := fmt.Sprintf("directed generic %d+%d", sz[0], sz[1])
		if pan != nil {
			st.Violation(t, "%s: panic %v", what, pan.Val)
		}
		if err != nil {
			st.Class("outcome:error:" + vf02ErrClass(err))
			if sz[0]+sz[1] < 65000 {
				st.Violation(t, "%s: encodable spec refused: %v", what, err)
			}
			continue
		}
		if h := vf02CheckHello(st, t, uc.HandshakeState.Hello.Raw, vf02Ctx{What: what, ECHPayload: -1}); h != nil {
			st.Class("outcome:valid")
			st.NonTrivial(what)
		}
	}
	// (2) fingerprinting a hello whose outer ECH payload is shorter than the AEAD tag
	for _, n := range []int{1, 5, 15, 16, 17, 144} {
		st.Eval()
		cm := vfCfgMeta{ServerName: "example.test", RandSeed: 2, OmitEmptyPsk: true}
		cp, _ := vfPipe()
		uc, err, _ := vf02Build(vf02Case{Source: "parrot", Name: "HelloChrome_120", ID: HelloChrome_120}, cm.Config(), cm, cp)
		if err != nil {
			st.Violation(t, "Chrome_120 does not build: %v", err)
		}
		h := vf02CheckHello(st, t, uc.HandshakeState.Hello.Raw, vf02Ctx{What: "parrot HelloChrome_120 (base of the directed ECH case)", ECHPayload: -1})
		if h == nil {
			continue
		}
		ec := h.ECH()
		if ec == nil {
			st.Violation(t, "Chrome_120 hello carries no ECH extension")
		}
		var b []byte
		b = append(b, 0)
		b = binary.BigEndian.AppendUint16(b, ec.KDF)
		b = binary.BigEndian.AppendUint16(b, ec.AEAD)
		b = append(b, ec.ConfigID)
		b = binary.BigEndian.AppendUint16(b, uint16(len(ec.Enc)))
		b = append(b, ec.Enc...)
		b = binary.BigEndian.AppendUint16(b, uint16(n))
		b = append(b, make([]byte, n)...)
		h.Ext(0xfe0d).Body = b
		in := vf02Serialize(h)
		if v := vfParseClientHello(in); len(v.Violations) != 0 {
			st.Violation(t, "harness: rewritten input is not valid: %v", v.Violations)
		}
		what := fmt.Sprintf("directed fingerprint of Chrome_120 with ECH payload %d", n)
		spec, err := (&Fingerprinter{}).FingerprintClientHello(vf02Record(in))
		if err != nil {
			st.Class("outcome:fingerprint-error")
			continue
		}
		cp2, _ := vfPipe()
		uc2, err, pan := vf02Build(vf02Case{Source: "fingerprinted", Name: what, ID: HelloCustom, Spec: spec}, cm.Config(), cm, cp2)
		if pan != nil {
			st.Violation(t, "%s: panic %v", what, pan.Val)
		}
		if err != nil {
			st.Class("outcome:error:" + vf02ErrClass(err))
			continue
		}
		if h2 := vf02CheckHello(st, t, uc2.HandshakeState.Hello.Raw, vf02Ctx{What: what, ECHPayload: n}); h2 != nil {
			st.Class("outcome:valid")
			st.NonTrivial(what)
			if n >= 16 {
				if e2 := h2.ECH(); e2 == nil || len(e2.Payload) != n {
					st.Violation(t, "%s: re-emitted ECH payload has %d bytes", what, len(e2.Payload))
				}
			}
		}
	}
}

// Specs obtained by fingerprinting / JSON import of a rewritten valid hello.
func TestVerifC02Fingerprinted(t *testing.T) {
	st := vfNewStats(t, "C02")
	rapid.Check(t, func(rt *rapid.T) {
		base := vf02GenSource(rt, st)
		bcm := vfCfgMeta{SNIKind: "dns", ServerName: vfGenDNSName(rt, "base_sni"), OmitEmptyPsk: true, RandSeed: rapid.Uint64().Draw(rt, "base_rand")}
		cp, _ := vfPipe()
		uc, err, pan := vf02Build(base, bcm.Config(), bcm, cp)
		if pan != nil {
			st.Violation(rt, "base %s %s: panic %v", base.Source, base.Name, pan.Val)
		}
		if err != nil {
			st.Class("base:error")
			return
		}
		h := vfParseClientHello(uc.HandshakeState.Hello.Raw)
		if len(h.Violations) != 0 || vf02ExtBlockLen(h) > vf02MaxBaseBlock {
			// invalid bases are TestVerifC02Build's business; oversized ones are not rewritten
			st.Class("base:skipped")
			return
		}
		rw := vf02RewriteHello(rt, h)
		in := vf02Serialize(h)
		hin := vfParseClientHello(in)
		if len(hin.Violations) != 0 {
			rt.Fatalf("harness bug: rewritten input is not valid: %v", hin.Violations)
		}
		cfg, cm := vfGenClientCfg(rt, "cfg")
		useJSON := rapid.IntRange(0, 3).Draw(rt, "via_json") == 0
		f := &Fingerprinter{AllowBluntMimicry: rapid.Bool().Draw(rt, "blunt"), AlwaysAddPadding: rapid.Bool().Draw(rt, "addpad"),
			RealPSKResumption: rapid.Bool().Draw(rt, "realpsk")}
		st.Eval()
		st.Class("base:" + base.Source)
		via := "raw"
		var spec *ClientHelloSpec
		if useJSON {
			via = "json"
			js, ok := vf02HelloToJSON(hin)
			if !ok {
				st.Class("json:not-representable")
				return
			}
			pan = vfCatch(func() { spec, err = f.UnmarshalJSONClientHello(js) })
		} else {
			pan = vfCatch(func() { spec, err = f.FingerprintClientHello(vf02Record(in)) })
		}
		st.Class("via:" + via)
		what := fmt.Sprintf("%s of %s %s rewrites=%v flags=%+v cfg=%s", via, base.Source, base.Name, rw.Desc, *f, cm.Key())
		if pan != nil {
			// C07 owns importer panics on arbitrary input; on a *valid* hello it is in C02's domain too, but it is
			// not "malformed bytes": count it, do not judge it here.
			st.Class("import:panic")
			return
		}
		if err != nil {
			st.Class("import:error:" + vf02ErrClass(err))
			return
		}
		cp2, _ := vfPipe()
		uc2, err, pan := vf02Build(vf02Case{Source: "fingerprinted", Name: what, ID: HelloCustom, Spec: spec}, cfg, cm, cp2)
		if pan != nil {
			// e.g. session-controller assertions: a panic is neither an error return nor valid bytes
			st.Violation(rt, "%s: panic %v", what, pan.Val)
		}
		if err != nil {
			st.Class("outcome:error:" + vf02ErrClass(err))
			return
		}
		raw := uc2.HandshakeState.Hello.Raw
		h2 := vf02CheckHello(st, rt, raw, vf02Ctx{What: what, ECHPayload: rw.ECHPayload})
		if h2 == nil {
			return
		}
		st.Class("outcome:valid")
		for _, d := range rw.Desc {
			st.Class("rewrite:" + strings.SplitN(d, "=", 2)[0])
		}
		st.NonTrivial(fmt.Sprintf("%s|%s|%s|%v|%s|%s", via, base.Source, base.Name, rw.Desc, cm.SNIKind, vf02SizeClass(len(raw))))
		st.Sample(map[string]any{"via": via, "base": base.Source + " " + base.Name, "rewrites": rw.Desc, "cfg": cm.Key(), "len": len(raw)})
	})
}

// A subset goes through Handshake against a plain server: every ClientHello on the wire (first flight, the
// one after a HelloRetryRequest, and the one of a resumed connection) must be valid or Handshake must fail
// before writing it.
func TestVerifC02Handshake(t *testing.T) {
	st := vfNewStats(t, "C02")
	rapid.Check(t, func(rt *rapid.T) {
		if rapid.IntRange(0, 5).Draw(rt, "run") != 0 {
			return // keeps the quick tier within budget: one case in six performs handshakes
		}
		c := vf02GenSource(rt, st)
		sni := vfGenDNSName(rt, "sni")
		cm := vfCfgMeta{SNIKind: "dns", ServerName: sni, Cache: true, OmitEmptyPsk: rapid.IntRange(0, 4).Draw(rt, "omit") != 0,
			RandSeed: rapid.Uint64().Draw(rt, "rand")}
		if rapid.Bool().Draw(rt, "np") {
			cm.NextProtos = []string{"h2", "http/1.1"}
		}
		cfg := cm.Config()
		// HelloCustom + warm cache + a spec without session extensions is a documented assertion (panic with advice
		// to set this flag); sessions are C19/C20's business, so the flag is set here.
		cfg.PreferSkipResumptionOnNilExtension = true
		scfg := vfServerConfig("ecdsa", sni)
		scfg.NextProtos = []string{"http/1.1"}
		forceHRR := rapid.IntRange(0, 3).Draw(rt, "hrr") == 0
		if forceHRR {
			scfg.CurvePreferences = []CurveID{[]CurveID{CurveP384, CurveP521, CurveP256}[rapid.IntRange(0, 2).Draw(rt, "hrr_group")]}
		}
		if rapid.IntRange(0, 3).Draw(rt, "tls12") == 0 {
			scfg.MaxVersion = VersionTLS12
		}
		st.Eval()
		st.Class("hs-source:" + c.Source)
		conns := 2
		if c.Meta != nil && c.Meta.HasPSK {
			// a spec carrying a pre-initialised FakePreSharedKeyExtension on a cache that holds a TLS 1.3 session
			// trips an assertion of the session controller (initPskExt: "already initialized") - a session-handling
			// matter (C20), reported there; C02 looks at such specs on a cold cache only
			conns = 1
		}
		for i := 0; i < conns; i++ {
			p := vfNewPair(cfg, c.ID, scfg)
			what := fmt.Sprintf("handshake#%d %s %s hrr=%v", i, c.Source, c.Name, forceHRR)
			if c.Meta != nil {
				if pan := vfCatch(func() {
					if err := p.Cli.ApplyPreset(c.Meta.Build()); err != nil {
						p.CliErr = err
					}
				}); pan != nil {
					st.Violation(rt, "%s: ApplyPreset panic %v", what, pan.Val)
				}
				if p.CliErr != nil {
					st.Class("hs-outcome:applypreset-error")
					p.Close()
					return
				}
			}
			var cerr error
			pan := vfCatch(func() { cerr, _ = p.Handshake() })
			if pan != nil {
				st.Violation(rt, "%s: panic %v", what, pan.Val)
			}
			if cerr == errVfHang {
				rt.Fatalf("%s: handshake did not return", what)
			}
			hellos := vfClientHellosOnWire(p.CP.Written())
			for k, raw := range hellos {
				if vf02CheckHello(st, rt, raw, vf02Ctx{What: fmt.Sprintf("%s hello#%d", what, k), ECHPayload: -1}) != nil {
					st.Class(fmt.Sprintf("hs-hello-valid:conn%d-hello%d", i, k))
				}
			}
			if len(hellos) == 0 {
				if cerr == nil {
					st.Violation(rt, "%s: handshake succeeded without a ClientHello on the wire", what)
				}
				st.Class("hs-outcome:error-before-hello")
				p.Close()
				return
			}
			if len(hellos) == 2 {
				st.Class("hs-with-hrr")
			}
			if cerr != nil {
				st.Class("hs-outcome:failed")
				p.Close()
				return
			}
			st.Class("hs-outcome:ok")
			st.NonTrivial(fmt.Sprintf("hs|%s|%s|%d|%d", c.Source, c.Name, i, len(hellos)))
			// read the session tickets so that the second connection offers resumption
			if err := p.Echo([]byte("ping"), []byte("pong")); err != nil {
				p.Close()
				return
			}
			if i == 1 {
				if h := vfParseClientHello(hellos[0]); h.Ext(41) != nil || (h.Ext(35) != nil && len(h.Ext(35).Body) > 0) {
					st.Class("hs-resumption-offered")
				}
			}
			p.Close()
		}
	})
}
