//go:build verif

package tls

// C26 (extension): reader and writer after the handshake, with a peer that asks for key updates. A TLS 1.3 KeyUpdate
// with update_requested makes the READER goroutine send a KeyUpdate and switch the connection's sending keys while the
// WRITER goroutine is sealing application data with them. Under the race detector any unsynchronised access is reported;
// in addition the peer must receive the writer's byte stream intact and neither side may see a record-layer error.

import (
	"bytes"
	"fmt"
	"io"
	"os"
	"sync"
	"testing"
	"time"

	"pgregory.net/rapid"
)

func vf26SendKeyUpdateRequest(c *Conn) error {
	c.out.Lock()
	defer c.out.Unlock()
	msg, _ := (&keyUpdateMsg{updateRequested: true}).marshal()
	if _, err := c.writeRecordLocked(recordTypeHandshake, msg); err != nil {
		return err
	}
	suite := cipherSuiteTLS13ByID(c.cipherSuite)
	c.out.setTrafficSecret(suite, QUICEncryptionLevelInitial, suite.nextTrafficSecret(c.out.trafficSecret))
	return nil
}

func TestVerifC26KeyUpdateAgainstWriter(t *testing.T) {
	st := vfNewStats(t, "C26")
	run := func(tt vfFataler, parrot string, updates, writes, wsize int) {
		st.Eval()
		fmt.Fprintf(os.Stderr, "vf26-keyupdate-case parrot=%s updates=%d writes=%d size=%d\n", parrot, updates, writes, wsize)
		cp, sp := vfPipe()
		ccfg := vfClientConfig("ku.c26.test")
		ccfg.OmitEmptyPsk = true
		uc := UClient(cp, ccfg, vf26ParrotByName(parrot).ID)
		scfg := vfServerConfig("ecdsa", "ku.c26.test")
		scfg.MinVersion = VersionTLS13
		srv := Server(sp, scfg)
		pair := &vfPair{CP: cp, SP: sp, Cli: uc, Srv: srv}
		defer pair.Close()
		if cerr, serr := pair.Handshake(); cerr != nil || serr != nil {
			st.Class("keyupdate:handshake-failed")
			return
		}
		dl := time.Now().Add(vf26IODeadline)
		cp.SetDeadline(dl)
		sp.SetDeadline(dl)
		want := make([]byte, 0, writes*wsize)
		for i := 0; i < writes; i++ {
			want = append(want, bytes.Repeat([]byte{byte(i)}, wsize)...)
		}
		var wg sync.WaitGroup
		var cwErr, crErr, srErr, skErr error
		var got []byte
		var fromSrv int
		wg.Add(4)
		go func() { // client writer
			defer wg.Done()
			for i := 0; i < writes; i++ {
				if _, err := uc.Write(want[i*wsize : (i+1)*wsize]); err != nil {
					cwErr = err
					return
				}
			}
		}()
		go func() { // client reader: processes the KeyUpdates
			defer wg.Done()
			buf := make([]byte, 64)
			for fromSrv < updates {
				n, err := uc.Read(buf)
				fromSrv += n
				if err != nil {
					crErr = err
					return
				}
			}
		}()
		go func() { // server: KeyUpdate(update_requested) + one byte, repeatedly
			defer wg.Done()
			for i := 0; i < updates; i++ {
				if err := vf26SendKeyUpdateRequest(srv); err != nil {
					skErr = err
					return
				}
				if _, err := srv.Write([]byte{byte(i)}); err != nil {
					skErr = err
					return
				}
			}
		}()
		go func() { // server reader: the writer's stream (and the client's KeyUpdate answers)
			defer wg.Done()
			got = make([]byte, len(want))
			_, srErr = io.ReadFull(srv, got)
		}()
		done := make(chan struct{})
		go func() { wg.Wait(); close(done) }()
		select {
		case <-done:
		case <-time.After(vf26IODeadline + vf26HangGrace):
			st.Violation(vf26HardFail{}, "key updates against a writer (%s, %d updates, %d writes of %d bytes): calls did not return", parrot, updates, writes, wsize)
		}
		what := fmt.Sprintf("%s: %d KeyUpdate(update_requested) from the peer while the client writes %d x %d bytes", parrot, updates, writes, wsize)
		if cwErr != nil || crErr != nil || srErr != nil || skErr != nil {
			if vf26IsTimeout(cwErr) || vf26IsTimeout(crErr) || vf26IsTimeout(srErr) {
				st.Class("keyupdate:deadline-hit(undecided)")
				return
			}
			st.Violation(tt, "%s: client Write err=%v, client Read err=%v, server Read err=%v, server send err=%v", what, cwErr, crErr, srErr, skErr)
		}
		if !bytes.Equal(got, want) {
			st.Violation(tt, "%s: the peer did not receive the writer's byte stream intact", what)
		}
		st.Class("keyupdate:intact")
		st.NonTrivial(fmt.Sprintf("ku|%s|%d|%d|%d", parrot, updates, writes, wsize))
	}
	run(t, "HelloChrome_120", 60, 400, 200)
	run(t, "HelloGolang", 60, 400, 1)
	n := 0
	rapid.Check(t, func(rt *rapid.T) {
		n++
		// each case is a full session with hundreds of records under the race detector (~90 ms): bounded by case count,
		// 40 in the quick tier, 400 per shard in the thorough tier
		if limit := map[bool]int{false: 40, true: 400}[vfThorough()]; n > limit {
			return
		}
		run(rt, vf26Parrots[rapid.IntRange(0, len(vf26Parrots)-1).Draw(rt, "parrot")].Name,
			rapid.IntRange(5, 80).Draw(rt, "updates"), rapid.IntRange(20, 500).Draw(rt, "writes"),
			rapid.SampledFrom([]int{1, 16, 200, 1400, 16384}).Draw(rt, "write_size"))
	})
}
