//go:build verif

package tls

// C26 (extension): the READER writes too. When the peer sends more consecutive ignorable records than the library
// tolerates (maxUselessRecords, read from the package: the limit itself is not judged here), the goroutine inside UConn.Read sends a fatal alert - on the outgoing half of the connection, which a
// concurrent Write (and Close / CloseWrite) is using at that moment. Under the race detector there must be no race,
// every call must return, and what the client puts on the wire must stay a sequence of whole, valid records: the
// server reads a prefix of the writer's data and then the alert or the end of the stream, never a local decode error.

import (
	"errors"
	"fmt"
	"io"
	"net"
	"strings"
	"sync"
	"testing"
	"time"

	"pgregory.net/rapid"
)

func vf26WriteEmptyRecord(c *Conn) error {
	c.out.Lock()
	defer c.out.Unlock()
	vers := c.vers
	if vers == VersionTLS13 {
		vers = VersionTLS12
	}
	hdr := []byte{byte(recordTypeApplicationData), byte(vers >> 8), byte(vers), 0, 0}
	rec, err := c.out.encrypt(hdr, nil, c.config.rand())
	if err != nil {
		return err
	}
	_, err = c.conn.Write(rec)
	return err
}

type vf26FloodCase struct {
	Parrot   string
	Vers     uint16
	Empty    int   // empty records the server sends in a row
	Writes   []int // sizes of the client's concurrent writes
	Yields   int   // Gosched calls of the writer before it starts
	Closer   string
	Gran     int // transport write granularity of the client's end (bytes per delivery step; 0 = whole)
	ServerRd bool
}

func (c vf26FloodCase) String() string {
	return fmt.Sprintf("%s vers=%04x empty-records=%d writes=%v writer-yields=%d closer=%q", c.Parrot, c.Vers, c.Empty, c.Writes, c.Yields, c.Closer)
}

func vf26FloodRun(c vf26FloodCase) (hang, slow, viol string, results []string) {
	scfg := vfServerConfig("ecdsa", "flood.c26.test")
	scfg.MaxVersion = c.Vers
	ccfg := vfClientConfig("flood.c26.test")
	ccfg.OmitEmptyPsk = true
	pair := vfNewPair(ccfg, vf26ParrotByName(c.Parrot).ID, scfg)
	if cerr, serr := pair.Handshake(); cerr != nil || serr != nil {
		pair.Close()
		return "", "", "", []string{fmt.Sprintf("setup: handshake: %v / %v", cerr, serr)}
	}
	if err := pair.Echo([]byte("before"), []byte("BEFORE")); err != nil {
		pair.Close()
		return "", "", "", []string{"setup: echo: " + err.Error()}
	}
	dl := time.Now().Add(vf26IODeadline)
	pair.CP.SetDeadline(dl)
	pair.SP.SetDeadline(dl)
	uc, srv := pair.Cli, pair.Srv
	results = make([]string, 4)
	var wg sync.WaitGroup
	// the server: reads everything the client sends (and notes how its reading ended), floods in parallel
	var srvErr error
	srvGot := 0
	srvDone := make(chan struct{})
	go func() {
		defer close(srvDone)
		buf := make([]byte, 1<<14)
		for {
			n, err := srv.Read(buf)
			srvGot += n
			if err != nil {
				srvErr = err
				return
			}
		}
	}()
	wg.Add(1)
	go func() { // reader
		defer wg.Done()
		buf := make([]byte, 512)
		n := 0
		for {
			k, err := uc.Read(buf)
			n += k
			if err != nil {
				results[0] = fmt.Sprintf("Read: %d bytes, %v", n, err)
				return
			}
		}
	}()
	wg.Add(1)
	go func() { // writer
		defer wg.Done()
		for i := 0; i < c.Yields; i++ {
			time.Sleep(50 * time.Microsecond)
		}
		total := 0
		for _, sz := range c.Writes {
			n, err := uc.Write(vf26Pattern(sz, byte(sz)))
			total += n
			if err != nil {
				results[1] = fmt.Sprintf("Write: %d bytes accepted, %v", total, err)
				return
			}
		}
		results[1] = fmt.Sprintf("Write: %d bytes accepted, <nil>", total)
	}()
	if c.Closer != "" {
		wg.Add(1)
		go func() {
			defer wg.Done()
			time.Sleep(time.Duration(c.Yields) * 30 * time.Microsecond)
			var err error
			if c.Closer == "Close" {
				err = uc.Close()
			} else {
				err = uc.CloseWrite()
			}
			results[2] = fmt.Sprintf("%s: %v", c.Closer, err)
		}()
	}
	var floodErr error
	for i := 0; i < c.Empty; i++ {
		if floodErr = vf26WriteEmptyRecord(srv); floodErr != nil {
			break
		}
	}
	results[3] = fmt.Sprintf("server flood: %v", floodErr)
	// then a last piece of data and the server's close_notify, so that a reader that tolerated the flood ends too
	go func() {
		srv.Write([]byte("tail"))
		srv.CloseWrite()
	}()
	done := make(chan struct{})
	go func() { wg.Wait(); close(done) }()
	prev := vf26ActorMarker
	vf26ActorMarker = "vf26FloodRun.func"
	hang, slow = vf26Watch(done, time.Until(dl)+vf26HangGrace)
	vf26ActorMarker = prev
	if hang == "" && slow == "" {
		uc.Close()
		select {
		case <-srvDone:
		case <-time.After(vf26IODeadline + vf26HangGrace):
			hang = "the server's reader did not return after the client closed"
		}
		if hang == "" && srvErr != nil && srvErr != io.EOF && !errors.Is(srvErr, net.ErrClosed) && !errors.Is(srvErr, io.ErrUnexpectedEOF) {
			var oe *net.OpError
			if errors.As(srvErr, &oe) && oe.Op == "local error" {
				viol = fmt.Sprintf("the server could not decode what the client wrote (%d bytes read before): %v", srvGot, srvErr)
			} else if strings.Contains(srvErr.Error(), "bad record MAC") || strings.Contains(srvErr.Error(), "record overflow") {
				viol = fmt.Sprintf("the server could not decode what the client wrote (%d bytes read before): %v", srvGot, srvErr)
			}
		}
	}
	pair.Close()
	return hang, slow, viol, results
}

func TestVerifC26ReaderAlertVsWriter(t *testing.T) {
	st := vfNewStats(t, "C26")
	run := func(tt vfFataler, c vf26FloodCase) {
		st.Eval()
		hang, slow, viol, results := vf26FloodRun(c)
		if len(results) == 1 {
			st.Violation(tt, "%s: %s", c, results[0])
		}
		if hang != "" {
			st.Violation(vf26HardFail{}, "HANG with a reader that sends an alert: %s\ncase: %s", hang, c)
		}
		if slow != "" {
			vf26Inconclusive(st, slow+"\ncase: "+c.String())
		}
		if viol != "" {
			st.Violation(tt, "%s: %s (results %v)", c, viol, results)
		}
		if c.Empty > maxUselessRecords {
			st.Class("flood:reader-sends-alert")
			if !strings.Contains(results[0], "too many ignored records") && c.Closer == "" {
				st.Violation(tt, "%s: %d consecutive empty records, but the reader ended with %q (all: %v)", c, c.Empty, results[0], results)
			}
			st.NonTrivial("flood|" + c.String())
		} else {
			st.Class("flood:below-the-limit")
			if !strings.Contains(results[0], "4 bytes, EOF") && c.Closer == "" {
				st.Violation(tt, "%s: %d consecutive empty records are within the limit, the reader must get the data behind them and the end of the stream, but ended with %q (all: %v)", c, c.Empty, results[0], results)
			}
		}
		st.Sample(map[string]any{"case": c.String(), "results": results})
	}
	for _, v := range []uint16{VersionTLS12, VersionTLS13} {
		run(t, vf26FloodCase{Parrot: "HelloChrome_120", Vers: v, Empty: maxUselessRecords + 1, Writes: []int{30000, 30000, 30000, 30000}, Yields: 0})
		run(t, vf26FloodCase{Parrot: "HelloGolang", Vers: v, Empty: maxUselessRecords + 8, Writes: []int{1, 16384, 100, 40000}, Yields: 2, Closer: "CloseWrite"})
	}
	rapid.Check(t, func(rt *rapid.T) {
		c := vf26FloodCase{
			Parrot: rapid.SampledFrom([]string{"HelloGolang", "HelloChrome_120", "HelloFirefox_120", "HelloIOS_14", "HelloChrome_100"}).Draw(rt, "parrot"),
			Vers:   rapid.SampledFrom([]uint16{VersionTLS12, VersionTLS13}).Draw(rt, "vers"),
			Empty:  rapid.SampledFrom([]int{3, maxUselessRecords, maxUselessRecords + 1, maxUselessRecords + 1, maxUselessRecords + 2, 2 * maxUselessRecords}).Draw(rt, "empty"),
			Yields: rapid.IntRange(0, 20).Draw(rt, "yields"),
			Closer: rapid.SampledFrom([]string{"", "", "Close", "CloseWrite"}).Draw(rt, "closer"),
		}
		n := rapid.IntRange(1, 6).Draw(rt, "nwrites")
		for i := 0; i < n; i++ {
			c.Writes = append(c.Writes, rapid.SampledFrom([]int{1, 100, 16384, 16385, 40000, 100000}).Draw(rt, fmt.Sprintf("w%d", i)))
		}
		run(rt, c)
	})
}
