//go:build verif

package tls

// C14 (extension): a client with a real ECH configuration against a server that answers at TLS 1.2 or below (an old
// front end, or an on-path attacker rewriting the ServerHello's version). TLS <= 1.2 has no ECH: there is no accept
// signal, no ECHRejectionError and no retry. What C14 demands is unchanged: a handshake only completes (with
// InsecureSkipVerify off) if the certificate was verified for the name the application asked for - Config.ServerName,
// the secret name - and never on the strength of a certificate for the ECH public name alone.

import (
	"bytes"
	"fmt"
	"testing"

	"pgregory.net/rapid"
)

func TestVerifC14ECHConfiguredLegacyServer(t *testing.T) {
	st := vfNewStats(t, "C14")
	var capable []vf14Ident
	for _, id := range vf14Identities(t) {
		if id.ECH {
			capable = append(capable, id)
		}
	}
	run := func(tt vfFataler, id vf14Ident, ver uint16, certNames string, seed uint64) {
		st.Eval()
		const secret, public = "secret.c14.test", "public.ech-c14.test"
		var names []string
		switch certNames {
		case "public-only":
			names = []string{public}
		case "secret-only":
			names = []string{secret}
		default:
			names = []string{public, secret}
		}
		leaf := vfLeaf(vfLeafSpec{Names: names})
		ech := vf14NewECH(seed, public)
		scfg := &Config{MinVersion: VersionTLS10, MaxVersion: ver, Time: vfNow, CipherSuites: vfAllServerSuites(), Certificates: []Certificate{*leaf}}
		ccfg := &Config{ServerName: secret, RootCAs: vfGetCA("main").Pool, OmitEmptyPsk: true, Time: vfNow,
			Rand: vfNewDetRand(seed, "c14-ech12"), EncryptedClientHelloConfigList: ech.ClientList}
		pair := vfNewPair(ccfg, id.ID, scfg)
		defer pair.Close()
		cerr, serr := pair.Handshake()
		what := fmt.Sprintf("%s with an ECH config (public name %s) for %s, server max %#04x holding a certificate for %v", id.Name, public, secret, ver, names)
		if cerr == errVfHang || serr == errVfHang {
			st.Violation(tt, "%s: handshake did not return", what)
		}
		st.Class(fmt.Sprintf("ech-vs-legacy-server:%#04x:%s:completed=%v", ver, certNames, cerr == nil))
		if cerr == nil {
			cs := pair.Cli.ConnectionState()
			okName := false
			for _, n := range names {
				okName = okName || n == secret
			}
			if !okName {
				st.Violation(tt, "%s: the handshake COMPLETED (version %#04x, ECHAccepted=%v, reported ServerName %q) although the certificate is not valid for Config.ServerName", what, cs.Version, cs.ECHAccepted, cs.ServerName)
			}
			if len(cs.PeerCertificates) == 0 || !bytes.Equal(cs.PeerCertificates[0].Raw, leaf.Certificate[0]) {
				st.Violation(tt, "%s: completed with another certificate than the server's", what)
			}
		}
		st.NonTrivial(fmt.Sprintf("ech12|%s|%04x|%s", id.Name, ver, certNames))
	}
	for i, id := range capable {
		for _, ver := range []uint16{VersionTLS12, VersionTLS11} {
			for _, cn := range []string{"public-only", "both"} {
				run(t, id, ver, cn, uint64(100+i))
			}
		}
	}
	rapid.Check(t, func(rt *rapid.T) {
		run(rt, capable[rapid.IntRange(0, len(capable)-1).Draw(rt, "ident")],
			rapid.SampledFrom([]uint16{VersionTLS12, VersionTLS12, VersionTLS11, VersionTLS10}).Draw(rt, "server_max"),
			rapid.SampledFrom([]string{"public-only", "public-only", "secret-only", "both"}).Draw(rt, "cert_names"),
			rapid.Uint64().Draw(rt, "seed"))
	})
}
