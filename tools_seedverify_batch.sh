#!/bin/bash
# usage: tools_seedverify_batch.sh <round> Cxx...   verifies /tmp/seed<round>-Cxx/seed_out and stores it as seeded/Cxx-r<round>
R=$1; shift
mkdir -p /verif/work/sv2
for p in "$@"; do
  python3 /verif/tools_seedverify.py $p --src /tmp/seed$R-$p/seed_out --name -r$R > /verif/work/sv2/$p-r$R.log 2>&1
  echo "$p: $(grep -E '^check ' /verif/work/sv2/$p-r$R.log | tr '\n' ' ') fails=$(grep -c 'FAIL ' /verif/work/sv2/$p-r$R.log)" >> /verif/work/sv2/summary$R.log
done
