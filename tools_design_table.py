#!/usr/bin/env python3
"""refresh the findings table in DESIGN.md section 8.2 from known_findings.json"""
import json,re
kf=json.load(open('/verif/known_findings.json'))
rows=["| %s | `%s` | %s | %s | %s |"%(f['property'],f['key'],f['status'],f.get('commit',''),f['what'].replace('|','/')[:230]) for f in kf['findings']]
d=open('/verif/DESIGN.md').read()
hdr="| property | key | status | commit | what |\n|---|---|---|---|---|\n"
i=d.index(hdr)+len(hdr)
j=d.index("\n\n",i)
d=d[:i]+"\n".join(rows)+d[j:]
open('/verif/DESIGN.md','w').write(d)
print(len(rows),"findings")
